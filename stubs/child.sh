#!/bin/sh
# Stub for a command delta launches itself (git, rg, diff): prints scripted
# stdout/stderr and ends with a scripted status.
R="$DELTASIM_RUN"
name=${0##*/}
if [ "$#" = 1 ] && [ "$1" = "--version" ]; then
    if [ "$name" = git ]; then cat "$R/git_version" 2>/dev/null; else echo "$name 1.0"; fi
    exit 0
fi
{
    printf '%s\n' "$name"
    for a in "$@"; do printf '%s\n' "$a"; done
} > "$R/child.argv"
echo "- G START pid=$$ name=$name" >> "$R/events.log"
order=$(cat "$R/child.order" 2>/dev/null)
code=$(cat "$R/child.exit" 2>/dev/null)
# A real git/rg that is still writing when its reader goes away dies of SIGPIPE: do the same.
emit() {
    cat "$1"
    rc=$?
    if [ "$rc" -gt 128 ]; then
        echo "- G SIGNALLED pid=$$ sig=$((rc - 128))" >> "$R/events.log"
        exec 1>&- 2>&-
        kill -$((rc - 128)) $$
        sleep 5
    fi
}
if [ "$order" = stderr_first ]; then
    emit "$R/child.stderr" >&2
    emit "$R/child.stdout"
else
    emit "$R/child.stdout"
    emit "$R/child.stderr" >&2
fi
echo "- G EXIT pid=$$ code=$code" >> "$R/events.log"
if [ "${code:-0}" -ge 1000 ]; then
    exec 1>&- 2>&-
    kill -$((code - 1000)) $$
    sleep 5
fi
exit "${code:-0}"
