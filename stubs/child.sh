#!/bin/sh
# Stub for a command delta launches itself (git, rg, diff): prints scripted
# stdout/stderr and ends with a scripted status.
R="$DELTASIM_RUN"
name=${0##*/}
if [ "$#" = 1 ] && [ "$1" = "--version" ]; then
    if [ "$name" = git ]; then cat "$R/git_version" 2>/dev/null; else echo "$name 1.0"; fi
    exit 0
fi
{
    printf '%s\n' "$name"
    for a in "$@"; do printf '%s\n' "$a"; done
} > "$R/child.argv"
echo "- G START pid=$$ name=$name" >> "$R/events.log"
order=$(cat "$R/child.order" 2>/dev/null)
code=$(cat "$R/child.exit" 2>/dev/null)
if [ "$order" = stderr_first ]; then
    cat "$R/child.stderr" >&2
    cat "$R/child.stdout"
else
    cat "$R/child.stdout"
    cat "$R/child.stderr" >&2
fi
echo "- G EXIT pid=$$ code=$code" >> "$R/events.log"
if [ "${code:-0}" -ge 1000 ]; then
    exec 1>&- 2>&-
    kill -$((code - 1000)) $$
    sleep 5
fi
exit "${code:-0}"
