#!/bin/sh
# Stub for a command delta launches itself (git, rg, diff): prints scripted
# stdout/stderr and ends with a scripted status.
R="$DELTASIM_RUN"
name=${0##*/}
if [ "$#" = 1 ] && [ "$1" = "--version" ]; then
    if [ "$name" = git ]; then cat "$R/git_version" 2>/dev/null; else echo "$name 1.0"; fi
    exit 0
fi
{
    printf '%s\n' "$name"
    for a in "$@"; do printf '%s\n' "$a"; done
} > "$R/child.argv"
echo "- G START pid=$$ name=$name" >> "$R/events.log"
# git before 2.42 cannot read /dev/fd/N operands (process substitution): it compares the link
# texts and reports a difference whatever the contents are.  Emulate that.
if [ "$name" = git ]; then
    ver=$(sed -n 's/^git version \([0-9]*\)\.\([0-9]*\).*/\1 \2/p' "$R/git_version" 2>/dev/null)
    set -- $ver "$@"
    maj=${1:-9}; min=${2:-99}; shift 2 2>/dev/null
    if [ "$maj" -lt 2 ] || { [ "$maj" -eq 2 ] && [ "$min" -lt 42 ]; }; then
        for a in "$@"; do
            case "$a" in
                /dev/fd/*|/proc/self/fd/*)
                    printf 'diff --git a/%s b/other\nindex 1..2 120000\n--- a/%s\n+++ b/other\n@@ -1 +1 @@\n-pipe:[1]\n+bogus\n' "$a" "$a"
                    echo "- G EXIT pid=$$ code=1 bogus=1" >> "$R/events.log"
                    exit 1
                    ;;
            esac
        done
    fi
fi
order=$(cat "$R/child.order" 2>/dev/null)
code=$(cat "$R/child.exit" 2>/dev/null)
# A real git/rg that is still writing when its reader goes away dies of SIGPIPE: do the same.
emit() {
    cat "$1"
    rc=$?
    if [ "$rc" -gt 128 ]; then
        echo "- G SIGNALLED pid=$$ sig=$((rc - 128))" >> "$R/events.log"
        exec 1>&- 2>&-
        kill -$((rc - 128)) $$
        sleep 5
    fi
}
if [ "$order" = stderr_first ]; then
    emit "$R/child.stderr" >&2
    emit "$R/child.stdout"
else
    emit "$R/child.stdout"
    emit "$R/child.stderr" >&2
fi
# a command that is done with its output before it is done: closes stdout and stderr, keeps
# running for a while (a planned real delay; no oracle reads the time), then ends with its status
linger=$(cat "$R/child.linger" 2>/dev/null)
if [ -n "$linger" ] && [ "$linger" != 0 ]; then
    exec 1>&- 2>&-
    echo "- G LINGER pid=$$ ms=$linger" >> "$R/events.log"
    sleep "$(printf '%d.%03d' $((linger / 1000)) $((linger % 1000)))"
fi
echo "- G EXIT pid=$$ code=$code" >> "$R/events.log"
if [ "${code:-0}" -ge 1000 ]; then
    exec 1>&- 2>&-
    kill -$((code - 1000)) $$
    sleep 5
fi
exit "${code:-0}"
