#!/bin/sh
# Stub pager (installed under the names less, more, most, mypager, ...).
# Records argv, the LESS* environment and everything it receives; appends its
# own records to the run's event log; exits only when the gate says so.
R="$DELTASIM_RUN"
name=${0##*/}
if [ "$#" = 1 ] && [ "$1" = "--version" ]; then
    cat "$R/less_version" 2>/dev/null
    exit 0
fi
{
    printf 'name=%s\n' "$name"
    for a in "$@"; do printf 'arg=%s\n' "$a"; done
} > "$R/pager.argv"
env | grep -E '^(LESS|DELTA_|PAGER|BAT_PAGER)' | sort > "$R/pager.env"
echo "- P START pid=$$ name=$name" >> "$R/events.log"
mode=$(cat "$R/pager.mode" 2>/dev/null)
code=$(cat "$R/pager.exit" 2>/dev/null)
released=0
wait_gate() {
    # $1 = any: any token releases; own: only our pid or EXIT
    while read tok <&3; do
        if [ "$tok" = "$$" ] || [ "$tok" = "EXIT" ]; then released=1; return; fi
        if [ "$1" = any ]; then return; fi
    done
}
case "$mode" in
    quit:*)
        n=${mode#quit:}
        head -c "$n" > "$R/pager.received"
        echo "- P QUIT pid=$$ after=$n" >> "$R/events.log"
        # 1000+n: die of signal n
        if [ "${code:-0}" -ge 1000 ]; then kill -s "$((code - 1000))" $$; sleep 1; fi
        exit "${code:-0}"
        ;;
    stall)
        exec 3<"$R/gate"
        echo "- P STALL pid=$$" >> "$R/events.log"
        wait_gate any
        echo "- P UNSTALL pid=$$" >> "$R/events.log"
        cat > "$R/pager.received"
        echo "- P EOF pid=$$" >> "$R/events.log"
        if [ "$released" = 0 ]; then wait_gate own; fi
        ;;
    gate)
        exec 3<"$R/gate"
        cat > "$R/pager.received"
        echo "- P EOF pid=$$" >> "$R/events.log"
        wait_gate own
        ;;
    *)
        cat > "$R/pager.received"
        echo "- P EOF pid=$$" >> "$R/events.log"
        ;;
esac
echo "- P EXIT pid=$$ code=${code:-0}" >> "$R/events.log"
exit "${code:-0}"
