//! C10, second clause — "running delta twice on the same input with the same options and
//! environment yields identical bytes" (engine E1).  The only uncontrolled randomness inside
//! delta is the hash-map key material; the shim makes it a function of the run's hash seed, so
//! the check runs each case under several hash seeds and different delivery schedules (and
//! naturally different pids / address-space layouts) and demands byte-identical output.

use crate::pool::{par_map, Ctx};
use crate::runner::*;
use serde::{Deserialize, Serialize};
use serde_json::json;
use simcore::evidence::Evidence;
use simcore::gen;
use simcore::report::*;
use simcore::rng::{fnv64, mix, tag, Rng};
use simcore::text::Blob;
use std::collections::{BTreeMap, BTreeSet};
use std::time::Instant;

#[derive(Clone, Debug, Serialize, Deserialize)]
pub struct Case {
    pub kind: String,
    pub args: Vec<String>,
    pub gitconfig: Option<String>,
    pub env: Vec<(String, String)>,
    pub stdin: Blob,
    /// delta launches the producer itself (so that grep / blame input is recognised as such)
    #[serde(default)]
    pub child: Option<ChildSetup>,
    /// delta runs as the child of a process with this command line (what `git show .. | delta`
    /// looks like to the scan of the process table); the scan then ends early or late
    #[serde(default)]
    pub parent: Option<Vec<String>>,
}

const COLORS: &[&str] = &[
    "red", "green", "blue", "yellow", "magenta", "purple", "cyan", "white", "black", "brightred", "bright-red", "brightblack", "bright-black", "brightgreen", "brightyellow", "bright-blue", "brightmagenta", "bright-purple", "brightpurple",
    "brightcyan", "bright-white", "9", "13", "8", "15", "#ff0000", "normal", "auto",
];
const ATTRS: &[&str] = &["bold", "ul", "italic", "dim", "reverse", "strike", "ol", "blink"];
const STYLE_OPTS: &[&str] = &[
    "plus-style", "minus-style", "zero-style", "plus-emph-style", "minus-emph-style", "file-style", "hunk-header-style", "commit-style", "line-numbers-minus-style", "line-numbers-plus-style", "line-numbers-zero-style", "grep-file-style",
    "grep-line-number-style", "whitespace-error-style", "minus-non-emph-style", "plus-non-emph-style", "minus-empty-line-marker-style", "plus-empty-line-marker-style",
];
const BUILTIN_FLAGS: &[&str] = &["raw", "diff-highlight", "diff-so-fancy", "navigate", "line-numbers", "side-by-side", "hyperlinks", "color-only"];

/// A style value: a literal style string or, one time in four, the NAME of another style option
/// (delta resolves such references; only options earlier in STYLE_OPTS are referenced, so there
/// are no cycles).
fn style_value(rng: &mut Rng, for_opt: &str) -> String {
    let idx = STYLE_OPTS.iter().position(|o| *o == for_opt).unwrap_or(0);
    if idx > 0 && rng.chance(1, 4) {
        return STYLE_OPTS[rng.below(idx as u64) as usize].to_string();
    }
    style_string(rng)
}

fn style_string(rng: &mut Rng) -> String {
    let mut parts: Vec<String> = Vec::new();
    for _ in 0..rng.range(0, 2) {
        parts.push(rng.pick(ATTRS).to_string());
    }
    parts.push(rng.pick(COLORS).to_string());
    if rng.chance(2, 3) {
        parts.push(rng.pick(COLORS).to_string());
    }
    parts.join(" ")
}

/// Coverage floor: every ordered pair (a hunk-line style set to the NAME of another one), with a
/// third member of the family set to a literal style, rendering a diff with within-line edits.
pub fn style_reference_cells(seed: u64) -> Vec<Case> {
    const FAMILY: &[&str] = &["plus-style", "minus-style", "zero-style", "plus-emph-style", "minus-emph-style", "plus-non-emph-style", "minus-non-emph-style"];
    let mut out = Vec::new();
    let mut rng = Rng::new(mix(seed, &[tag("C10"), tag("stylecells")]));
    let mut gp = gen::random_params(&mut rng, 2);
    gp.flavor = gen::Flavor::Git;
    gp.sections = vec![gen::SectionKind::Modified, gen::SectionKind::ModifiedEndsChanged];
    gp.similar_pairs = true;
    let diff = gen::to_bytes(&gen::generate(&mut rng, &gp));
    for a in FAMILY {
        for b in FAMILY {
            if a == b {
                continue;
            }
            // a non-emph style of the same sign if it is free, else any free member of the family
            let sign = &a[..4];
            let third: &str = FAMILY.iter().copied().find(|x| x != a && x != b && x.contains("non-emph") && x.starts_with(sign)).or_else(|| FAMILY.iter().copied().find(|x| x != a && x != b && x.contains("non-emph"))).or_else(|| FAMILY.iter().copied().find(|x| x != a && x != b)).unwrap_or("zero-style");
            let args: Vec<String> = vec!["--paging".into(), "never".into(), "--no-gitconfig".into(), "--width".into(), "100".into(), format!("--{}", a), b.to_string(), format!("--{}", third), "dim".into()];
            out.push(Case { kind: "style-reference-cell".into(), args, gitconfig: None, env: vec![], stdin: diff.clone().into(), child: None, parent: None });
        }
    }
    out
}

/// Coverage floor: inputs whose rendering depends on which command produced them, with delta started
/// as the child of that command (found by the real scan of the process table).  `check_case` makes
/// the scan end before or long after the first lines arrive: "same input, options and environment"
/// must mean the same bytes.
pub fn caller_cells(seed: u64) -> Vec<Case> {
    let mut rng = Rng::new(mix(seed, &[tag("C10"), tag("callercells")]));
    let mut out = Vec::new();
    let base: Vec<String> = vec!["--paging".into(), "never".into(), "--no-gitconfig".into(), "--width".into(), "100".into()];
    let mut gp = gen::random_params(&mut rng, 3);
    gp.flavor = gen::Flavor::Git;
    gp.sections = vec![gen::SectionKind::Modified, gen::SectionKind::RenamedChanged, gen::SectionKind::Modified];
    let diff = gen::to_bytes(&gen::generate(&mut rng, &gp));
    let src = "fn main() {\n    let x = \"T000900 str\";\n    // T000901\n}\n".repeat(3);
    let cells: Vec<(&str, Vec<&str>, Vec<&str>, Vec<(&str, &str)>, Vec<u8>)> = vec![
        ("piped-git-diff-relative", vec!["git", "diff", "--relative"], vec!["--relative-paths"], vec![("GIT_PREFIX", "src/")], diff.clone()),
        ("piped-git-log-p", vec!["git", "log", "-p", "--relative=src"], vec!["--relative-paths", "--line-numbers"], vec![("GIT_PREFIX", "src/")], diff.clone()),
        ("piped-git-show-file", vec!["git", "show", "HEAD~2:src/sample.rs"], vec![], vec![], src.clone().into_bytes()),
        ("piped-git-blame", vec!["git", "blame", "src/main.rs"], vec![], vec![], gen::blame_input(&mut rng, 12)),
        ("piped-git-grep", vec!["git", "grep", "-n", "fn"], vec![], vec![], gen::grep_input(&mut rng, 12)),
        ("piped-git-grep-W", vec!["git", "grep", "-W", "-n", "fn"], vec!["--hyperlinks"], vec![], gen::grep_input(&mut rng, 12)),
        ("piped-rg", vec!["rg", "-n", "fn"], vec![], vec![], gen::grep_input(&mut rng, 12)),
    ];
    for (kind, parent, extra, envv, input) in cells {
        let mut args = base.clone();
        args.extend(extra.iter().map(|x| x.to_string()));
        out.push(Case { kind: kind.into(), args, gitconfig: None, env: envv.iter().map(|(k, v)| (k.to_string(), v.to_string())).collect(), stdin: input.into(), child: None, parent: Some(parent.iter().map(|x| x.to_string()).collect()) });
    }
    out
}

pub fn gen_case(seed: u64, idx: usize) -> Case {
    let mut rng = Rng::new(mix(seed, &[tag("C10"), tag("det"), idx as u64]));
    let roll = rng.below(10);
    if roll < 4 {
        // --show-config over generated style strings and feature sets
        let mut args: Vec<String> = vec!["--width".into(), "100".into()];
        let mut gc = String::from("[delta]\n");
        for _ in 0..rng.range(1, 5) {
            let o = *rng.pick(STYLE_OPTS);
            let s = style_value(&mut rng, o);
            if rng.chance(1, 2) {
                args.push(format!("--{}", o));
                args.push(s);
            } else {
                gc.push_str(&format!("\t{} = {}\n", o, s));
            }
        }
        let mut flags: Vec<&str> = BUILTIN_FLAGS.to_vec();
        rng.shuffle(&mut flags);
        for f in flags.iter().take(rng.range(0, 4)) {
            gc.push_str(&format!("\t{} = true\n", f));
        }
        if rng.chance(1, 3) {
            gc.push_str("[delta \"fa\"]\n\traw = true\n\tdiff-so-fancy = true\n\tline-numbers = true\n");
            gc.push_str("[delta]\n\tfeatures = fa\n");
        }
        if rng.chance(1, 4) {
            gc.push_str("[delta]\n\tblame-palette = red brightblue \"#102030\" purple\n");
        }
        args.push("--show-config".into());
        return Case { kind: "show-config".into(), args, gitconfig: Some(gc), env: vec![], stdin: Blob::default(), child: None, parent: None };
    }
    let opts = gen::random_delta_opts(&mut rng);
    let mut args = opts.args.clone();
    args.insert(0, "never".into());
    args.insert(0, "--paging".into());
    let mut gitconfig = None;
    if rng.chance(1, 3) {
        // rendering with several builtin features enabled by flags in gitconfig
        args.retain(|a| a != "--no-gitconfig");
        let mut gc = String::from("[delta]\n");
        let mut flags: Vec<&str> = BUILTIN_FLAGS.iter().copied().filter(|f| *f != "color-only").collect();
        rng.shuffle(&mut flags);
        for f in flags.iter().take(rng.range(2, 4)) {
            gc.push_str(&format!("\t{} = true\n", f));
        }
        for _ in 0..rng.range(0, 2) {
            let o = *rng.pick(STYLE_OPTS);
            gc.push_str(&format!("\t{} = {}\n", o, style_value(&mut rng, o)));
        }
        gitconfig = Some(gc);
    }
    // half of the rendering runs configure the family of hunk-line styles, with references
    // between its members (emph / non-emph / base / empty-line-marker styles interact when a
    // changed line has a within-line edit)
    if rng.chance(1, 2) {
        const FAMILY: &[&str] = &["plus-style", "minus-style", "zero-style", "plus-emph-style", "minus-emph-style", "plus-non-emph-style", "minus-non-emph-style", "plus-empty-line-marker-style", "minus-empty-line-marker-style"];
        let mut fam: Vec<&str> = FAMILY.to_vec();
        rng.shuffle(&mut fam);
        let k = rng.range(2, 5);
        let mut chosen: Vec<&str> = fam[..k].to_vec();
        chosen.sort_by_key(|o| FAMILY.iter().position(|f| f == o));
        for o in chosen {
            let idx = FAMILY.iter().position(|f| *f == o).unwrap();
            let v = if idx > 0 && rng.chance(2, 5) { FAMILY[rng.below(idx as u64) as usize].to_string() } else { style_string(&mut rng) };
            args.push(format!("--{}", o));
            args.push(v);
        }
    }
    // style options on the command line of rendering runs too (literal styles and references)
    let mut seen_opts: Vec<&str> = Vec::new();
    for _ in 0..rng.range(0, 4) {
        let o = *rng.pick(&STYLE_OPTS[..12]);
        if seen_opts.contains(&o) || args.iter().any(|a| a == &format!("--{}", o)) {
            continue;
        }
        seen_opts.push(o);
        args.push(format!("--{}", o));
        args.push(style_value(&mut rng, o));
    }
    let (kind, stdin) = if roll < 8 {
        let mut gp = gen::random_params(&mut rng, opts.line_buffer_size.min(8));
        gp.similar_pairs = true; // within-line edits: emph / non-emph styles matter
        ("diff", gen::to_bytes(&gen::generate(&mut rng, &gp)))
    } else if roll == 8 {
        let n = rng.range(3, 25);
        ("blame", gen::blame_input(&mut rng, n))
    } else {
        let n = rng.range(3, 25);
        ("grep", gen::grep_input(&mut rng, n))
    };
    if rng.chance(1, 5) {
        args.push("--hyperlinks".into());
    }
    // one rendering case in four: delta launches git/rg itself, so that blame and grep output is
    // rendered by the blame / grep handlers (colour assignment, path headers, hyperlinks)
    if rng.chance(1, 4) {
        let which = rng.below(4);
        let n = rng.range(4, 30);
        let (kind2, cmd, out): (&str, Vec<&str>, Vec<u8>) = match which {
            0 => ("launched-blame", vec!["git", "blame", "src/main.rs"], gen::blame_input(&mut rng, n)),
            1 => ("launched-git-grep", vec!["git", "grep", "-n", "fn"], gen::grep_input(&mut rng, n)),
            2 => ("launched-git-grep-W", vec!["git", "grep", "-W", "-n", "fn"], gen::grep_input(&mut rng, n)),
            _ => {
                let mut s = String::from("{\"type\":\"begin\",\"data\":{\"path\":{\"text\":\"src/x.rs\"}}}\n");
                for i in 0..n {
                    s.push_str(&format!("{{\"type\":\"match\",\"data\":{{\"path\":{{\"text\":\"src/x{}.rs\"}},\"lines\":{{\"text\":\"T{:06} fn abc() {{}}\\n\"}},\"line_number\":{},\"absolute_offset\":{},\"submatches\":[{{\"match\":{{\"text\":\"fn\"}},\"start\":8,\"end\":10}}]}}}}\n", i % 3, i, i + 1, i * 20));
                }
                ("launched-rg", vec!["rg", "fn"], s.into_bytes())
            }
        };
        let mut a2 = args.clone();
        for c in &cmd {
            a2.push((*c).into());
        }
        return Case { kind: kind2.into(), args: a2, gitconfig, env: vec![], stdin: Blob::default(), child: Some(ChildSetup { names: vec!["git".into(), "rg".into()], stdout: out.into(), stderr: Blob::default(), stderr_first: false, exit: 0, git_version: "git version 2.45.1".into(), linger_ms: 0 }), parent: None };
    }
    Case { kind: kind.into(), args, gitconfig, env: vec![], stdin: stdin.into(), child: None, parent: None }
}

fn spec_for(case: &Case, hash_seed: u64, rchunks: Vec<i64>, rdelays: Vec<i64>, scan_delay_ms: i64) -> RunSpec {
    let mut spec = RunSpec::default();
    spec.parent_cmdline = case.parent.clone();
    spec.args = case.args.clone();
    spec.gitconfig = case.gitconfig.clone();
    spec.env = case.env.clone();
    spec.stdin = case.stdin.clone();
    spec.child = case.child.clone();
    spec.plan = Plan::basic(hash_seed);
    spec.plan.rchunks = rchunks;
    spec.plan.rdelays_ms = rdelays;
    if case.parent.is_some() {
        spec.plan.scan_delay_ms = scan_delay_ms;
    }
    spec
}

pub fn check_case(env: &Env, ctx: &Ctx, case: &Case, hash_seeds: &[u64]) -> (Option<Violation>, u64, Vec<u64>) {
    let mut first: Option<(u64, Vec<u8>, Option<i32>, Vec<u8>)> = None;
    let mut runs = 0;
    let mut outs = Vec::new();
    for (i, hs) in hash_seeds.iter().enumerate() {
        // alternate the delivery schedule and its timing as well: the producer pauses (delta's
        // monotonic and wall clocks advance by the pause) between chunks
        let (rch, rdl): (Vec<i64>, Vec<i64>) = match i % 4 {
            0 => (vec![], vec![]),
            1 => (vec![1, 7, 0, 300], vec![0, 700, 0, 3000]),
            2 => (vec![64], vec![5, 450]),
            _ => (vec![33, 200], vec![60_000, 0, 1]),
        };
        // (cases with a parent process only) the scan of the process table ends early or late, in
        // real time: no simulated clock in these runs, a timed wait in delta must see real durations
        let scan_delay = [0i64, 1500, 0, 700][i % 4];
        let rdl = if case.parent.is_some() { vec![] } else { rdl };
        let r = match run(env, &spec_for(case, *hs, rch, rdl, scan_delay), &ctx.dir.join("run"), false) {
            Ok(r) => r,
            Err(_) => continue,
        };
        runs += 1;
        outs.push(fnv64(&r.stdout));
        match &first {
            None => first = Some((*hs, r.stdout.clone(), r.exit_code, r.stderr.clone())),
            Some((hs0, out0, ex0, err0)) => {
                // the thread id in a panic message is the pid: environment, not output
                let norm = |b: &[u8]| -> Vec<u8> {
                    let t = String::from_utf8_lossy(b).to_string();
                    if t.contains("panicked at") {
                        t.bytes().filter(|c| !c.is_ascii_digit()).collect()
                    } else {
                        b.to_vec()
                    }
                };
                if &r.stdout != out0 || r.exit_code != *ex0 || norm(&r.stderr) != norm(err0) {
                    let a = String::from_utf8_lossy(&simcore::text::strip_ansi(out0)).to_string();
                    let b = String::from_utf8_lossy(&simcore::text::strip_ansi(&r.stdout)).to_string();
                    let dl = a.lines().zip(b.lines()).find(|(x, y)| x != y).map(|(x, y)| format!("{:?} vs {:?}", x.trim(), y.trim())).unwrap_or_else(|| "(differences in escape sequences or length only)".into());
                    return (
                        Some(Violation::new(
                            "R-deterministic",
                            &format!("det:{}", case.kind),
                            format!("same input, options and environment, different bytes under hash seeds {} and {} ({} vs {} bytes, exit {:?} vs {:?}); first differing line: {}", hs0, hs, out0.len(), r.stdout.len(), ex0, r.exit_code, dl),
                        )),
                        runs,
                        outs,
                    );
                }
            }
        }
    }
    (None, runs, outs)
}

pub fn main_c10(env: &Env, tier: &str, seed: u64, replay: Option<&str>) -> i32 {
    let t0 = Instant::now();
    let ctx0 = Ctx { worker: 0, dir: env.scratch.join("w0"), stop: &std::sync::atomic::AtomicBool::new(false) };
    if let Some(path) = replay {
        let v: serde_json::Value = match std::fs::read_to_string(path).ok().and_then(|t| serde_json::from_str(&t).ok()) {
            Some(v) => v,
            None => return 2,
        };
        let case: Case = serde_json::from_value(v["case"].clone()).unwrap();
        let hs: Vec<u64> = serde_json::from_value(v["hash_seeds"].clone()).unwrap();
        return match check_case(env, &ctx0, &case, &hs).0 {
            Some(x) => {
                println!("VIOLATION property=C10 replay={}", path);
                println!("  oracle={} {}", x.oracle, x.message);
                1
            }
            None => {
                println!("replay {}: no violation (property holds on this tree for this case)", path);
                0
            }
        };
    }
    let (n, h) = if tier == "thorough" { (20000, 12) } else { (500, 4) };
    let mut cases: Vec<Case> = (0..n).map(|i| gen_case(seed, i)).collect();
    cases.extend(style_reference_cells(seed));
    cases.extend(caller_cells(seed));
    let pool: Vec<u64> = (0..256).map(|i| mix(seed, &[tag("C10"), tag("hashpool"), i as u64]) % 1_000_000).collect();
    let results = par_map(&env.scratch, &cases, &|ctx, i, c: &Case| {
        let hs: Vec<u64> = (0..h).map(|j| pool[(i * 7 + j * 31) % pool.len()]).collect();
        let r = check_case(env, ctx, c, &hs);
        (r, hs)
    });
    // canary: how many distinct hash-map iteration orders did the seeds produce?  (--show-config
    // of a fixed config does not expose it; the canary is the set of distinct *seeds* used, and the
    // self-test `deltasim-proc selftest` demonstrates that orders vary with the seed.)
    let known = load_known();
    let mut exit = 0;
    let mut reported: BTreeSet<String> = BTreeSet::new();
    let mut runs = 0u64;
    let mut kinds: BTreeMap<String, u64> = BTreeMap::new();
    let mut seeds_used: BTreeSet<u64> = BTreeSet::new();
    for (i, r) in results.iter().enumerate() {
        let ((v, rn, _), hs) = r.as_ref().unwrap();
        runs += rn;
        *kinds.entry(format!("case_kind.{}", cases[i].kind)).or_default() += 1;
        for s in hs {
            seeds_used.insert(*s);
        }
        if let Some(x) = v {
            if let Some(k) = known.matches("C10", x) {
                println!("KNOWN-FINDING: property=C10 {} [{}]", k.what, k.signature);
                continue;
            }
            if reported.contains(&x.signature) || reported.len() >= 3 {
                continue;
            }
            if check_case(env, &ctx0, &cases[i], hs).0.is_none() {
                eprintln!("NOTE: violation did not reproduce, not reported: [{} {:?}] {}", cases[i].kind, cases[i].args, x.message);
                continue;
            }
            reported.insert(x.signature.clone());
            // minimise: gitconfig lines, then args
            let mut case = cases[i].clone();
            let fails = |c: &Case| check_case(env, &ctx0, c, hs).0.is_some();
            if let Some(gc) = case.gitconfig.clone() {
                let lines: Vec<String> = gc.lines().map(|l| l.to_string()).collect();
                let mut budget = 30usize;
                let kept = simcore::text::ddmin(lines, &mut budget, &mut |ls: &[String]| {
                    let mut c = case.clone();
                    c.gitconfig = Some(ls.join("\n") + "\n");
                    fails(&c)
                });
                case.gitconfig = Some(kept.join("\n") + "\n");
            }
            let mut k = 0;
            let mut budget = 20;
            while k < case.args.len() && budget > 0 {
                let a = case.args[k].clone();
                if !a.starts_with("--") || ["--paging", "--width", "--show-config", "--no-gitconfig"].contains(&a.as_str()) {
                    k += 1;
                    continue;
                }
                let takes = k + 1 < case.args.len() && !case.args[k + 1].starts_with("--");
                let mut c = case.clone();
                c.args.remove(k);
                if takes {
                    c.args.remove(k);
                }
                budget -= 1;
                if fails(&c) {
                    case = c;
                } else {
                    k += 1;
                }
            }
            let mv = check_case(env, &ctx0, &case, hs).0.unwrap_or_else(|| x.clone());
            let path = write_replay("C10", &format!("R-{}", reported.len()), &json!({"property": "C10", "engine": "E1-proc", "seed": seed, "oracle": mv.oracle, "signature": mv.signature, "message": mv.message, "case": case, "hash_seeds": hs}));
            println!("VIOLATION property=C10 replay={}", path.display());
            println!("  oracle={} {}", mv.oracle, mv.message);
            exit = 1;
        }
    }
    let mut ev = Evidence::new("C10", tier, seed, "exploration");
    ev.evaluations = runs;
    ev.distinct_nontrivial = n as u64;
    ev.rule = "clause 2 (determinism), E1 part: one evaluation = one execution of the real binary under one hash seed (getrandom stream owned by the shim), one delivery schedule and one timing of it (simulated producer pauses of 0 ms .. 60 s, by which delta's clocks advance); a case (generated diff/blame/grep input x option swarm, or --show-config over generated style strings and feature flags) is run under several hash seeds and must give byte-identical stdout/stderr/exit status. distinct_nontrivial = distinct cases (each run under >= 4 different hash seeds).".into();
    ev.counters = kinds;
    ev.counters.insert("hash_seeds_per_case".into(), h as u64);
    ev.counters.insert("distinct_hash_seeds_used".into(), seeds_used.len() as u64);
    ev.counters.insert("fault_fired.hash_seed_variation".into(), runs);
    ev.violations = reported.len() as u64;
    ev.samples = cases.iter().take(3).map(|c| json!({"kind": c.kind, "args": c.args, "gitconfig": c.gitconfig})).collect();
    ev.extra.insert("engine".into(), json!("E1-proc"));
    ev.wall_s = t0.elapsed().as_secs_f64();
    let part = std::env::var("EVIDENCE_PART").unwrap_or_else(|_| format!("{}/evidence/C10.json", verif_root()));
    if ev.write(&part).is_err() {
        return 2;
    }
    println!("C10 {} (E1, clause 2): {} cases x {} hash seeds, {} runs, {} violations, {:.1}s", tier, n, h, runs, reported.len(), ev.wall_s);
    exit
}
