//! C11 on the real binary (engine E1): the same lag / delivery-independence oracles as E2, but
//! observed at the syscall seam — `read(0)` entries are the quiescence points, `write` calls on
//! fd 1 or on the pipe to the pager are what the consumer has been offered.  Catches what E2
//! cannot see: how main.rs reads stdin and what sits between the Painter and the descriptor.

use crate::pool::{par_map, Ctx};
use crate::runner::*;
use serde::{Deserialize, Serialize};
use serde_json::json;
use simcore::evidence::Evidence;
use simcore::gen::{self, DeltaOpts, GLine};
use simcore::lag::{self, LagStats, Q};
use simcore::report::*;
use simcore::rng::{mix, tag, Rng};
use std::collections::{BTreeMap, BTreeSet};
use std::time::Instant;

#[derive(Clone, Debug, Serialize, Deserialize)]
pub struct Case {
    pub opts: DeltaOpts,
    pub lines: Vec<GLine>,
    pub rchunks: Vec<i64>,
    pub wplan: Vec<i64>,
    #[serde(default)]
    pub rdelays_ms: Vec<i64>,
    pub pager: bool,
    pub hash_seed: u64,
}

pub fn gen_case(seed: u64, idx: usize) -> Case {
    let mut rng = Rng::new(mix(seed, &[tag("C11"), tag("e1case"), idx as u64]));
    let mut opts = gen::random_delta_opts(&mut rng);
    let mut gp = gen::random_params(&mut rng, opts.line_buffer_size.min(8));
    // one case in eight: big painted blocks (long runs of long lines with the default buffer size), so
    // that single writes of 4 KiB .. 60 KiB occur - what a buffering layer in front of the consumer sees
    let big = idx % 8 == 3;
    if big {
        let sbs = idx % 16 == 3;
        opts.args = vec!["--no-gitconfig".into(), "--width".into(), if sbs { "240".into() } else { "160".into() }];
        if sbs {
            opts.args.push("--side-by-side".into());
        }
        opts.side_by_side = sbs;
        opts.color_only = false;
        opts.line_buffer_size = 32;
        gp.flavor = gen::Flavor::Git;
        gp.sections = vec![gen::SectionKind::Modified, gen::SectionKind::ModifiedEndsChanged];
        gp.max_hunks = 2;
        gp.pivot = *rng.pick(&[6usize, 12, 20, 28, 31]);
        gp.max_run = gp.pivot + 2;
        gp.long_line_pct = *rng.pick(&[30u8, 60, 90]);
        gp.similar_pairs = true;
    }
    let mut lines = gen::generate(&mut rng, &gp);
    let _ = gen::add_byte_features(&mut lines, &mut rng);
    if rng.chance(1, 3) {
        let _ = gen::add_git_colors(&mut lines, &mut rng);
    }
    let n = rng.range(1, 8);
    let mut rchunks: Vec<i64> = (0..n).map(|_| *rng.pick(&[0i64, 1, 2, 5, 17, 33, 100, 1000, 8192])).collect();
    if rchunks.iter().all(|c| *c == 0) {
        rchunks.push(3);
    }
    let m = rng.range(1, 6);
    let mut wplan: Vec<i64> = (0..m).map(|_| *rng.pick(&[-1i64, -1, -1, 0, 1, 5, 40])).collect();
    if wplan.iter().all(|c| *c == 0) {
        wplan.push(-1);
    }
    let nd = rng.range(1, 5);
    let rdelays_ms: Vec<i64> = (0..nd).map(|_| *rng.pick(&[0i64, 0, 1, 450, 2_000, 60_000])).collect();
    let pager = if big { idx % 32 != 19 } else { rng.chance(1, 2) };
    Case { opts, lines, rchunks, wplan, rdelays_ms, pager, hash_seed: rng.below(1_000_000) }
}

fn spec_for(case: &Case, rchunks: Vec<i64>, wplan: Vec<i64>, rdelays: Vec<i64>) -> RunSpec {
    let mut spec = RunSpec::default();
    spec.args = case.opts.args.clone();
    spec.args.insert(0, if case.pager { "always".into() } else { "never".into() });
    spec.args.insert(0, "--paging".into());
    spec.stdin = gen::to_bytes(&case.lines).into();
    spec.plan = Plan::basic(case.hash_seed);
    spec.plan.rchunks = rchunks;
    spec.plan.wplan = wplan;
    spec.plan.rdelays_ms = rdelays;
    spec.pager = Some(PagerSetup { names: vec!["less".into()], mode: "gate".into(), exit_code: 0, less_version: "less 581".into() });
    spec
}

fn output_of(case: &Case, r: &RunResult) -> Vec<u8> {
    if case.pager {
        r.pager_received.clone().unwrap_or_default()
    } else {
        r.stdout.clone()
    }
}

fn quiescence(r: &RunResult) -> Vec<Q> {
    // an R record is written after read(0) returned: at its entry `ret` fewer bytes had been delivered
    r.delta_events()
        .filter(|e| e.kind == "R")
        .map(|e| {
            let ret = e.num("ret").max(0) as usize;
            Q { delivered: (e.num("rtot").max(0) as usize).saturating_sub(ret), written: e.num("wtot").max(0) as usize }
        })
        .collect()
}

pub fn check_case(env: &Env, ctx: &Ctx, case: &Case) -> (Vec<Violation>, LagStats, u64, BTreeMap<String, u64>) {
    let mut out = Vec::new();
    let mut stats = LagStats::default();
    let mut fired: BTreeMap<String, u64> = BTreeMap::new();
    let mut runs = 0;
    let dir = ctx.dir.join("run");
    let mode = if case.pager { "pager" } else { "stdout" };
    // reference: unconstrained delivery, no faults
    let base = match run(env, &spec_for(case, vec![], vec![], vec![]), &dir, false) {
        Ok(r) => r,
        Err(_) => return (out, stats, runs, fired),
    };
    runs += 1;
    if base.timed_out || base.exit_code != Some(0) {
        let err = String::from_utf8_lossy(&base.stderr).to_string();
        if err.contains("panicked at") && !base.timed_out {
            // a crash on this input whatever the delivery (here: of a binary built with debug
            // assertions) is not a matter of streaming; the case is set aside, as in the E2 part
            eprintln!("NOTE: incidental panic in a fault-free run of the real binary (not a C11 matter): {}", err.lines().filter(|l| !l.trim().is_empty()).take(2).collect::<Vec<_>>().join(" "));
            *fired.entry("incidental_panic_in_reference_run".into()).or_default() += 1;
            return (out, stats, runs, fired);
        }
        out.push(Violation::new("D-delivery-independence", &format!("e1:{}:reference-failed", mode), format!("fault-free run failed: exit {:?} timeout {} stderr {}", base.exit_code, base.timed_out, err.chars().take(200).collect::<String>())));
        return (out, stats, runs, fired);
    }
    let ref_out = output_of(case, &base);
    let t = lag::truth(&case.lines, &ref_out);
    let line_chunks: Vec<i64> = case.lines.iter().map(|l| (l.text.len() + 1) as i64).collect();
    for (name, rc, wp, dl) in [("one line per read", line_chunks, vec![], vec![]), ("sampled schedule with producer pauses", case.rchunks.clone(), case.wplan.clone(), case.rdelays_ms.clone())] {
        let r = match run(env, &spec_for(case, rc, wp, dl), &dir, false) {
            Ok(r) => r,
            Err(_) => continue,
        };
        runs += 1;
        for e in r.delta_events() {
            match e.get("inj") {
                Some("eintr") if e.kind == "R" => *fired.entry("fault_fired.read_eintr".into()).or_default() += 1,
                Some("eintr") => *fired.entry("fault_fired.write_eintr".into()).or_default() += 1,
                Some("short") => *fired.entry("fault_fired.short_write".into()).or_default() += 1,
                Some("chunk") => *fired.entry("fault_fired.read_chunked".into()).or_default() += 1,
                _ => {}
            }
            if e.kind == "CLOCK" {
                *fired.entry("fault_fired.producer_pause_clock_advance".into()).or_default() += 1;
                *fired.entry("simulated_time_covered_ms".into()).or_default() += e.num("advance_ms").max(0) as u64;
            }
        }
        if r.timed_out || r.exit_code != Some(0) {
            out.push(Violation::new("D-delivery-independence", &format!("e1:{}:result-differs", mode), format!("[{} / {}] run ended differently from the fault-free run: exit {:?} timeout {}", mode, name, r.exit_code, r.timed_out)));
            return (out, stats, runs, fired);
        }
        let o = output_of(case, &r);
        if o != ref_out {
            out.push(Violation::new("D-delivery-independence", &format!("e1:{}:output-differs", mode), format!("[{} / {}] output ({} bytes) differs from the one-chunk fault-free run ({} bytes)", mode, name, o.len(), ref_out.len())));
            return (out, stats, runs, fired);
        }
        let qs = quiescence(&r);
        if let Some(mut v) = lag::check_lag(&case.lines, case.opts.line_buffer_size, &t, &qs, &mut stats, name) {
            v.signature = format!("e1:{}:{}", mode, v.signature);
            v.message = format!("[real binary, {} mode] {}", mode, v.message);
            out.push(v);
            return (out, stats, runs, fired);
        }
    }
    (out, stats, runs, fired)
}

/// Oracle M on the real binary: live heap (glibc `mallinfo2().uordblks`, sampled by the shim at
/// every read(0) entry) at the quiescence point after the last unchanged line must not grow with
/// the input.  Sees what E2 cannot: main.rs reading everything first, or output piling up between
/// the Painter and the descriptor.
pub fn memory_check(env: &Env, ctx: &Ctx, args: &[String], n: usize, seed: u64, pager: bool) -> (Option<Violation>, serde_json::Value) {
    let build = |reps: usize| -> Vec<GLine> {
        let mut rng = Rng::new(mix(seed, &[tag("C11"), tag("e1mem")]));
        let gp = gen::GenParams { flavor: gen::Flavor::Git, sections: vec![], max_hunks: 1, pivot: 3, max_run: 8, with_commit_preamble: false, multibyte: false, no_newline_marker: false, similar_pairs: true, no_index_lines: false, no_prefix: false, line_number_class: 0, long_line_pct: 0, path_style: 0 };
        let mut lines: Vec<GLine> = Vec::new();
        let mut tok = 0usize;
        // a fixed repertoire of 100 hunks, repeated: every cache keyed on content (lazily compiled
        // regexes of the highlighter, memoised widths ...) is warm well before the smaller size ends,
        // so what still grows between the two sizes grows with the input
        let mut templates: Vec<Vec<GLine>> = Vec::new();
        for h in 0..reps {
            // one file (fixed name, so the same language is used at both sizes), many hunks
            let sec = if h < 100 {
                let s = gen::generate_section(&mut rng, &gp, gen::SectionKind::Modified, 0, tok);
                templates.push(s.clone());
                s
            } else {
                templates[h % 100].clone()
            };
            tok += sec.iter().filter(|l| l.token.is_some()).count();
            for mut l in sec {
                if l.kind == gen::LineKind::HunkHeader {
                    l.text = gen::renumber_hunk_header(&l.text, 10 + h * 37);
                }
                if l.kind == gen::LineKind::Meta {
                    if h > 0 {
                        continue;
                    }
                    // normalise the file name
                    for pre in ["diff --git ", "--- a/", "+++ b/"] {
                        if l.text.starts_with(pre) {
                            l.text = match pre {
                                "diff --git " => "diff --git a/src/x.rs b/src/x.rs".to_string(),
                                "--- a/" => "--- a/src/x.rs".to_string(),
                                _ => "+++ b/src/x.rs".to_string(),
                            };
                        }
                    }
                }
                lines.push(l);
            }
        }
        lines
    };
    let measure = |reps: usize| -> Option<(i64, usize)> {
        let lines = build(reps);
        let data = gen::to_bytes(&lines);
        let mut spec = RunSpec::default();
        spec.args = args.to_vec();
        spec.args.insert(0, if pager { "always".into() } else { "never".into() });
        spec.args.insert(0, "--paging".into());
        spec.stdin = data.clone().into();
        spec.plan = Plan::basic(7);
        spec.plan.heap = true;
        spec.plan.rchunks = vec![997]; // many reads, boundaries anywhere
        spec.pager = Some(PagerSetup { names: vec!["less".into()], mode: "gate".into(), exit_code: 0, less_version: "less 581".into() });
        let r = run(env, &spec, &ctx.dir.join("run"), false).ok()?;
        if r.timed_out || r.exit_code != Some(0) {
            return None;
        }
        // heap at the last read(0) entry at which the delivered bytes end in an unchanged line
        let mut ends: Vec<(usize, bool)> = Vec::new();
        let mut off = 0;
        for l in &lines {
            off += l.text.len() + 1;
            ends.push((off, l.kind == gen::LineKind::Context));
        }
        let mut best: Option<i64> = None;
        for e in r.delta_events().filter(|e| e.kind == "R") {
            let ret = e.num("ret").max(0) as usize;
            let delivered = (e.num("rtot").max(0) as usize).saturating_sub(ret);
            // last complete line delivered
            let idx = ends.partition_point(|(o, _)| *o <= delivered);
            if idx > 0 && ends[idx - 1].1 && delivered > data.len() / 2 {
                best = Some(e.num("heap"));
            }
        }
        best.map(|h| (h, data.len()))
    };
    let (h1, l1) = match measure(n) {
        Some(x) => x,
        None => return (None, serde_json::json!({"error": "run failed"})),
    };
    let (h4, l4) = match measure(4 * n) {
        Some(x) => x,
        None => return (None, serde_json::json!({"error": "run failed"})),
    };
    let info = serde_json::json!({"args": args, "pager": pager, "hunks_small": n, "hunks_large": 4 * n, "input_bytes_small": l1, "input_bytes_large": l4, "heap_in_use_small": h1, "heap_in_use_large": h4});
    let growth = h4 - h1;
    let input_growth = (l4 - l1) as i64;
    if growth > input_growth / 4 {
        return (
            Some(Violation::new(
                "M-memory",
                &format!("e1:{}:M:heap-grows-with-input", if pager { "pager" } else { "stdout" }),
                format!("[real binary, {} mode] heap in use at a quiescence point after an unchanged line grew by {} bytes when the input grew by {} bytes ({} -> {} hunks; args {:?})", if pager { "pager" } else { "stdout" }, growth, input_growth, n, 4 * n, args),
            )),
            info,
        );
    }
    (None, info)
}

pub fn main_c11(env: &Env, tier: &str, seed: u64, replay: Option<&str>) -> i32 {
    let t0 = Instant::now();
    let ctx0 = Ctx { worker: 0, dir: env.scratch.join("w0"), stop: &std::sync::atomic::AtomicBool::new(false) };
    if let Some(path) = replay {
        let v: serde_json::Value = match std::fs::read_to_string(path).ok().and_then(|t| serde_json::from_str(&t).ok()) {
            Some(v) => v,
            None => return 2,
        };
        if v["oracle"].as_str() == Some("M-memory") {
            let args: Vec<String> = serde_json::from_value(v["mem_args"].clone()).unwrap_or_default();
            let (viol, _) = memory_check(env, &ctx0, &args, v["mem_n"].as_u64().unwrap_or(300) as usize, v["seed"].as_u64().unwrap_or(1), v["mem_pager"].as_bool().unwrap_or(false));
            return match viol {
                Some(x) => {
                    println!("VIOLATION property=C11 replay={}", path);
                    println!("  oracle={} {}", x.oracle, x.message);
                    1
                }
                None => {
                    println!("replay {}: no violation", path);
                    0
                }
            };
        }
        let case: Case = serde_json::from_value(v["case"].clone()).unwrap();
        let oracle = v["oracle"].as_str().unwrap_or("");
        let (vs, _, _, _) = check_case(env, &ctx0, &case);
        return match vs.iter().find(|x| x.oracle == oracle) {
            Some(x) => {
                println!("VIOLATION property=C11 replay={}", path);
                println!("  oracle={} {}", x.oracle, x.message);
                1
            }
            None => {
                println!("replay {}: no violation of {}", path, oracle);
                0
            }
        };
    }
    let n = if tier == "thorough" { 8000 } else { 160 };
    let cases: Vec<Case> = (0..n).map(|i| gen_case(seed, i)).collect();
    let results = par_map(&env.scratch, &cases, &|ctx, _i, c: &Case| check_case(env, ctx, c));
    let known = load_known();
    let mut exit = 0;
    let mut reported: BTreeSet<String> = BTreeSet::new();
    let mut counters: BTreeMap<String, u64> = BTreeMap::new();
    let mut runs = 0u64;
    let mut nontrivial = 0u64;
    let mut maxm = 0;
    let mut maxp = 0;
    for (i, r) in results.iter().enumerate() {
        let (vs, st, rn, fired) = r.as_ref().unwrap();
        runs += rn;
        if st.in_hunk_points > 0 {
            nontrivial += 1;
        }
        *counters.entry("quiescence_points_checked".into()).or_default() += st.quiescence_checked;
        *counters.entry("quiescence_points_inside_hunk".into()).or_default() += st.in_hunk_points;
        *counters.entry("points_with_held_lines_exactly_at_bound".into()).or_default() += st.held_at_bound;
        maxm = maxm.max(st.max_held_minus);
        maxp = maxp.max(st.max_held_plus);
        for (k, v) in fired {
            *counters.entry(k.clone()).or_default() += v;
        }
        *counters.entry(format!("mode.{}", if cases[i].pager { "pager" } else { "stdout" })).or_default() += 1;
        if let Some(v) = vs.first() {
            if let Some(k) = known.matches("C11", v) {
                println!("KNOWN-FINDING: property=C11 {} [{}]", k.what, k.signature);
                continue;
            }
            if reported.contains(&v.signature) || reported.len() >= 3 {
                continue;
            }
            // confirm by replay
            let (again, _, _, _) = check_case(env, &ctx0, &cases[i]);
            if !again.iter().any(|x| x.oracle == v.oracle) {
                eprintln!("NOTE: violation did not reproduce, not reported: {}", v.message);
                continue;
            }
            reported.insert(v.signature.clone());
            // minimise: fewer lines
            let mut case = cases[i].clone();
            let oracle = v.oracle.clone();
            let mut budget = 40usize;
            let kept = gen::minimise_lines(case.lines.clone(), &mut budget, &mut |ls: &[GLine]| {
                let mut c = case.clone();
                c.lines = ls.to_vec();
                check_case(env, &ctx0, &c).0.iter().any(|x| x.oracle == oracle)
            });
            case.lines = kept;
            let mv = check_case(env, &ctx0, &case).0.into_iter().find(|x| x.oracle == oracle).unwrap_or_else(|| v.clone());
            let path = write_replay("C11", &format!("E1-{}-{}", v.oracle, reported.len()), &json!({"property": "C11", "engine": "E1-proc", "seed": seed, "oracle": mv.oracle, "signature": mv.signature, "message": mv.message, "case": case}));
            println!("VIOLATION property=C11 replay={}", path.display());
            println!("  oracle={} {}", mv.oracle, mv.message);
            exit = 1;
        }
    }
    // oracle M on the real binary
    let mem_n = if tier == "thorough" { 3000 } else { 300 };
    let mem_cfgs: Vec<(Vec<String>, bool)> = vec![
        (vec!["--no-gitconfig".into(), "--width".into(), "120".into()], false),
        (vec!["--no-gitconfig".into(), "--width".into(), "120".into(), "--side-by-side".into()], true),
    ];
    let mem = par_map(&env.scratch, &mem_cfgs, &|ctx, _i, c: &(Vec<String>, bool)| memory_check(env, ctx, &c.0, mem_n, seed, c.1));
    let mut mem_info = Vec::new();
    for (i, m) in mem.iter().enumerate() {
        let (v, info) = m.as_ref().unwrap();
        mem_info.push(info.clone());
        runs += 2;
        if let Some(x) = v {
            if let Some(k) = known.matches("C11", x) {
                println!("KNOWN-FINDING: property=C11 {} [{}]", k.what, k.signature);
                continue;
            }
            let path = write_replay("C11", &format!("E1-M-memory-{}", i), &json!({"property": "C11", "engine": "E1-proc", "seed": seed, "oracle": "M-memory", "signature": x.signature, "message": x.message, "mem_args": mem_cfgs[i].0, "mem_pager": mem_cfgs[i].1, "mem_n": mem_n}));
            println!("VIOLATION property=C11 replay={}", path.display());
            println!("  oracle={} {}", x.oracle, x.message);
            reported.insert(x.signature.clone());
            exit = 1;
        }
    }
    counters.insert("max_held_minus".into(), maxm as u64);
    counters.insert("max_held_plus".into(), maxp as u64);
    let mut ev = Evidence::new("C11", tier, seed, "exploration");
    ev.evaluations = runs;
    ev.distinct_nontrivial = nontrivial;
    ev.rule = "E1 part: one evaluation = one execution of the real delta binary under the syscall shim (stdout mode or pager mode with a recording stub pager), input delivered by the shim's read(0) schedule (one line per read; sampled chunks with EINTR), consumer faults EINTR/short writes; quiescence points are the read(0) entries in the event log. distinct_nontrivial = cases with at least one quiescence point inside a hunk.".into();
    ev.counters = counters;
    ev.counters.insert("cases".into(), n as u64);
    ev.violations = reported.len() as u64;
    ev.samples = cases.iter().take(2).map(|c| json!({"args": c.opts.args, "pager": c.pager, "rchunks": c.rchunks, "wplan": c.wplan})).collect();
    ev.extra.insert("engine".into(), json!("E1-proc"));
    ev.extra.insert("memory_oracle_real_binary".into(), json!(mem_info));
    ev.wall_s = t0.elapsed().as_secs_f64();
    let part = std::env::var("EVIDENCE_PART").unwrap_or_else(|_| format!("{}/evidence/C11.json", verif_root()));
    if ev.write(&part).is_err() {
        return 2;
    }
    println!("C11 {} (E1): {} cases, {} runs of the real binary, {} quiescence points inside hunks, max held -{} +{}, {} violations, {:.1}s", tier, n, runs, ev.counters["quiescence_points_inside_hunk"], maxm, maxp, reported.len(), ev.wall_s);
    exit
}
