//! C18 — exit status and pager protocol under faults (engine E1).
//!
//! A scenario is a fault-free `RunSpec` plus what the property promises for it.
//! Faults are applied on top.  For EPIPE the fault space is *enumerated*: one
//! run per output write call of the fault-free run.

use crate::pool::{par_map, Ctx};
use crate::report::*;
use crate::runner::*;
use serde::{Deserialize, Serialize};
use serde_json::json;
use simcore::evidence::Evidence;
use simcore::gen;
use simcore::rng::{mix, tag, Rng};
use simcore::text::{strip_ansi, tokens_in, Blob};
use std::collections::{BTreeMap, BTreeSet};
use std::time::Instant;

/// The wrapped command was killed by a signal: there is no status to pass through, any is accepted.
pub const ANY_EXIT: i32 = -1;

#[derive(Clone, Debug, Serialize, Deserialize, PartialEq)]
pub enum ArgsRule {
    /// delta chooses the arguments: for less they must pass colours through
    DeltaChoice,
    /// the user's arguments arrive verbatim
    Verbatim(Vec<String>),
}

#[derive(Clone, Debug, Serialize, Deserialize, PartialEq)]
pub struct PagerModel {
    /// None: no pager can be started, output falls back to stdout
    pub name: Option<String>,
    pub args: ArgsRule,
    pub source: String,
}

#[derive(Clone, Debug, Serialize, Deserialize)]
pub struct Scenario {
    pub name: String,
    /// stdin | diff2 | wrapped | oneshot
    pub kind: String,
    pub sub: String,
    pub spec: RunSpec,
    /// never | always | auto
    pub paging: String,
    pub expect_exit: i32,
    pub tokens: Vec<u32>,
    pub pager_model: Option<PagerModel>,
    pub stderr_may_be_nonempty: bool,
    /// whether X2/X3 (delivery equality with --paging never, selection model) apply
    pub check_selection: bool,
    /// coverage-floor scenario: evaluated fault-free only
    #[serde(default)]
    pub light: bool,
}

#[derive(Clone, Debug, Serialize, Deserialize, PartialEq)]
pub enum Fault {
    None,
    /// EPIPE from the k-th output write on
    Epipe { k: i64 },
    /// short writes / EINTR on output, chunked reads / EINTR on input
    Transparent { wplan: Vec<i64>, rchunks: Vec<i64> },
    /// the pager really exits after reading n bytes
    /// the pager reads n bytes and ends: exit status `how`, or death by signal `how - 1000`
    PagerQuit {
        n: usize,
        #[serde(default)]
        how: i32,
    },
    /// stdout is a pipe whose reader goes away after n bytes
    StdoutQuit { n: usize },
    /// the pager does not read until delta blocks or waits
    Stall,
    /// SIGINT raised in delta at a logged point ("w:<k>", "W", "B"), optionally with a stalled pager
    Sigint { at: String, stall: bool },
}

impl Fault {
    pub fn kind(&self) -> &'static str {
        match self {
            Fault::None => "none",
            Fault::Epipe { .. } => "epipe",
            Fault::Transparent { .. } => "transparent",
            Fault::PagerQuit { .. } => "pager-quit",
            Fault::StdoutQuit { .. } => "stdout-quit",
            Fault::Stall => "stall",
            Fault::Sigint { .. } => "sigint",
        }
    }
}

#[derive(Clone, Debug, Default)]
pub struct RefInfo {
    pub delivered: Vec<u8>,
    pub n_writes: usize,
    pub exit: Option<i32>,
    pub stderr: Vec<u8>,
    /// cumulative accepted bytes before write k
    pub wtot_before: Vec<usize>,
    pub ok: bool,
}

fn delivered(s: &Scenario, r: &RunResult) -> Vec<u8> {
    // what the consumer got: the pager's input if a pager ran, plus anything on stdout
    let mut v = Vec::new();
    if let Some(p) = &r.pager_received {
        v.extend_from_slice(p);
    }
    v.extend_from_slice(&r.stdout);
    let _ = s;
    v
}

pub fn apply(s: &Scenario, f: &Fault) -> RunSpec {
    let mut spec = s.spec.clone();
    match f {
        Fault::None => {}
        Fault::Epipe { k } => {
            spec.plan.wfail_at = *k;
            spec.plan.wfail_errno = 32;
            spec.plan.wfail_sticky = true;
        }
        Fault::Transparent { wplan, rchunks } => {
            spec.plan.wplan = wplan.clone();
            spec.plan.rchunks = rchunks.clone();
        }
        Fault::PagerQuit { n, how } => {
            if let Some(p) = spec.pager.as_mut() {
                p.mode = format!("quit:{}", n);
                if *how != 0 {
                    p.exit_code = *how;
                }
            }
        }
        Fault::StdoutQuit { n } => spec.stdout_quit_after = Some(*n),
        Fault::Stall => {
            if let Some(p) = spec.pager.as_mut() {
                p.mode = "stall".into();
            }
        }
        Fault::Sigint { at, stall } => {
            spec.plan.sigint = at.clone();
            if *stall {
                if let Some(p) = spec.pager.as_mut() {
                    p.mode = "stall".into();
                }
            }
        }
    }
    spec
}

fn has_panic(stderr: &[u8]) -> bool {
    let s = String::from_utf8_lossy(stderr);
    s.contains("panicked") || s.contains("RUST_BACKTRACE")
}

fn short(b: &[u8]) -> String {
    let s = String::from_utf8_lossy(b);
    let s: String = s.chars().take(300).collect();
    s.replace('\n', "\\n")
}

/// Checks that hold for every run, whatever the fault.
fn common(s: &Scenario, f: &Fault, r: &RunResult, out: &mut Vec<Violation>) {
    let sig = |o: &str| format!("{}:{}:{}:{}", s.kind, s.sub, f.kind(), o);
    if r.timed_out {
        out.push(Violation::new("X6-terminates", &sig("hang"), format!("delta did not terminate (scenario {} fault {:?})", s.name, f)));
        return;
    }
    if has_panic(&r.stderr) {
        // signature: where it happens (scenario kind, launched program, notable options) and the
        // panic message, without run-specific numbers
        let text = String::from_utf8_lossy(&r.stderr).to_string();
        let msg: String = text.lines().skip_while(|l| !l.contains("panicked at")).nth(1).unwrap_or("").chars().take(70).collect();
        let prog = s.sub.split('-').next().unwrap_or("");
        let mut psig = format!("{}:{}:panic:{}", s.kind, prog, msg.trim());
        if s.spec.args.iter().any(|a| a == "--color-only") {
            psig.push_str(":color-only");
        }
        out.push(Violation::new("X5-no-panic", &psig, format!("panic message on stderr: {}", short(&r.stderr))));
    }
    if let Some(sg) = r.signal {
        out.push(Violation::new("X5-no-signal", &sig("signal"), format!("delta died by signal {}", sg)));
    }
    // X4: delta never exits before a pager it started
    let spawned_pager = r.delta_events().any(|e| e.kind == "SPAWN" && e.get("role") == Some("pager") && e.get("probe") == Some("0") && e.num("ret") == 0);
    if spawned_pager {
        let p_exit = r.events.iter().position(|e| e.who == 'P' && (e.kind == "EXIT" || e.kind == "QUIT"));
        let d_exit = r.events.iter().position(|e| e.who == 'D' && e.kind == "EXIT");
        match (p_exit, d_exit) {
            (Some(p), Some(d)) if p < d => {}
            (Some(_), None) if r.signal.is_some() => {}
            _ => out.push(Violation::new(
                "X4-waits-for-pager",
                &sig("exit-before-pager"),
                format!("delta exited before the pager did (pager exit record at {:?}, delta exit record at {:?}, pager finished: {})", p_exit, d_exit, r.pager_finished),
            )),
        }
        // delivery: what the pager received is exactly what delta's writes on the pipe carried
        if !matches!(f, Fault::PagerQuit { .. }) {
            let sum: i64 = r.delta_events().filter(|e| e.kind == "W" && e.get("fd") == Some("9") && e.num("ret") > 0).map(|e| e.num("ret")).sum();
            let got = r.pager_received.as_ref().map(|v| v.len() as i64).unwrap_or(-1);
            if sum != got {
                out.push(Violation::new("X2-delivery", &sig("pipe-bytes-lost"), format!("delta's writes to the pager pipe carried {} bytes, the pager received {}", sum, got)));
            }
        }
    }
}

fn check_selection(s: &Scenario, r: &RunResult, out: &mut Vec<Violation>) {
    let sig = |o: &str| format!("{}:{}:selection:{}", s.kind, s.sub, o);
    let m = match &s.pager_model {
        Some(m) => m,
        None => {
            if r.pager_name.is_some() {
                out.push(Violation::new("X3-selection", &sig("unexpected-pager"), format!("a pager ({:?}) was started although paging is off", r.pager_name)));
            }
            return;
        }
    };
    match (&m.name, &r.pager_name) {
        (None, None) => {}
        (None, Some(n)) => out.push(Violation::new("X3-selection", &sig("unexpected-pager"), format!("no usable pager was configured but {:?} was started", n))),
        (Some(want), None) => out.push(Violation::new("X3-selection", &sig("no-pager"), format!("expected pager {:?} (from {}) but none was started", want, m.source))),
        (Some(want), Some(got)) => {
            if want != got {
                out.push(Violation::new("X3-selection", &sig("wrong-pager"), format!("expected pager {:?} (from {}), got {:?}", want, m.source, got)));
                return;
            }
            let argv = r.pager_argv.clone().unwrap_or_default();
            match &m.args {
                ArgsRule::Verbatim(a) => {
                    if &argv != a {
                        out.push(Violation::new("X3-selection", &sig("args-not-verbatim"), format!("user-supplied pager arguments {:?} arrived as {:?}", a, argv)));
                    }
                }
                ArgsRule::DeltaChoice => {
                    if want == "less" {
                        let raw = argv.iter().any(|a| a == "--RAW-CONTROL-CHARS" || a == "-R" || (a.starts_with('-') && !a.starts_with("--") && a.contains('R')));
                        if !raw {
                            out.push(Violation::new("X3-selection", &sig("less-without-R"), format!("less was started with delta-chosen arguments {:?} that do not pass colours through", argv)));
                        }
                    }
                }
            }
        }
    }
}

/// Evaluate one (scenario, fault) run against the reference.
pub fn evaluate(s: &Scenario, f: &Fault, refi: &RefInfo, r: &RunResult) -> Vec<Violation> {
    let mut out = Vec::new();
    let sig = |o: &str| format!("{}:{}:{}:{}", s.kind, s.sub, f.kind(), o);
    common(s, f, r, &mut out);
    if r.timed_out || out.iter().any(|v| v.oracle == "X5-no-panic") {
        // everything else about this run (exit status, missing output) is a consequence
        out.retain(|v| v.oracle == "X5-no-panic" || v.oracle == "X6-terminates");
        return out;
    }
    let got = delivered(s, r);
    match f {
        Fault::None | Fault::Transparent { .. } | Fault::Stall | Fault::Sigint { .. } => {
            if s.expect_exit != ANY_EXIT && r.exit_code != Some(s.expect_exit) {
                out.push(Violation::new("X1-exit-status", &sig("exit"), format!("exit status {:?}, expected {} (stderr: {})", r.exit_code, s.expect_exit, short(&r.stderr))));
            }
            if !s.stderr_may_be_nonempty && !r.stderr.is_empty() {
                out.push(Violation::new("X5-quiet", &sig("stderr"), format!("unexpected stderr: {}", short(&r.stderr))));
            }
            let toks = tokens_in(&strip_ansi(&got));
            let missing: Vec<&u32> = s.tokens.iter().filter(|t| !toks.contains(t)).collect();
            if !missing.is_empty() {
                out.push(Violation::new("X1-all-rendered", &sig("missing-output"), format!("{} of {} input lines never reached the consumer (first missing token T{:06})", missing.len(), s.tokens.len(), missing[0])));
            }
            if !matches!(f, Fault::None) && refi.ok {
                if got != refi.delivered {
                    out.push(Violation::new("X2-transparent", &sig("output-differs"), format!("output differs from the fault-free run ({} vs {} bytes)", got.len(), refi.delivered.len())));
                }
                if r.stderr != refi.stderr && !s.stderr_may_be_nonempty {
                    out.push(Violation::new("X2-transparent", &sig("stderr-differs"), "stderr differs from the fault-free run".to_string()));
                }
            }
            if let Fault::Sigint { .. } = f {
                let raised = r.delta_events().any(|e| e.kind == "SIGINT");
                let survived = r.delta_events().any(|e| e.kind == "SIGINT-SURVIVED");
                if raised && !survived {
                    out.push(Violation::new("X4-sigint", &sig("killed-by-sigint"), "delta was killed by SIGINT, leaving the pager behind".to_string()));
                }
            }
            if s.check_selection && s.paging != "never" && s.kind != "oneshot" {
                check_selection(s, r, &mut out);
            }
        }
        Fault::Epipe { k } => {
            let fired = r.delta_events().any(|e| e.kind == "W" && e.get("inj") == Some("fail"));
            if !fired {
                return out; // planned beyond the last write: not a fault run
            }
            if r.exit_code != Some(0) {
                out.push(Violation::new("X5-quiet-quit", &sig("exit"), format!("consumer went away at write {}: exit status {:?}, expected 0 (stderr: {})", k, r.exit_code, short(&r.stderr))));
            }
            if !r.stderr.is_empty() {
                out.push(Violation::new("X5-quiet-quit", &sig("stderr"), format!("consumer went away at write {}: stderr not empty: {}", k, short(&r.stderr))));
            }
            // bounded work after the fault: delta stops
            let evs: Vec<&Event> = r.delta_events().collect();
            let first_fail = evs.iter().position(|e| e.kind == "W" && e.get("inj") == Some("fail")).unwrap();
            let later_w = evs[first_fail + 1..].iter().filter(|e| e.kind == "W").count();
            let later_r = evs[first_fail + 1..].iter().filter(|e| e.kind == "R" && e.num("ret") > 0).count();
            if later_w > 2 {
                out.push(Violation::new("X5-stops", &sig("keeps-writing"), format!("{} further write attempts after the consumer went away at write {}", later_w, k)));
            }
            if later_r > 1 {
                out.push(Violation::new("X5-stops", &sig("keeps-reading"), format!("{} further reads of input after the consumer went away at write {}", later_r, k)));
            }
            if refi.ok {
                let want = refi.wtot_before.get(*k as usize).copied().unwrap_or(usize::MAX);
                if want != usize::MAX && (got.len() != want || got[..] != refi.delivered[..want.min(refi.delivered.len())]) {
                    out.push(Violation::new("X2-prefix", &sig("not-a-prefix"), format!("bytes delivered before the fault ({}) are not the first {} bytes of the fault-free output", got.len(), want)));
                }
            }
        }
        Fault::PagerQuit { .. } | Fault::StdoutQuit { .. } => {
            // confirmation runs: which write fails is the kernel's choice, the verdict must not depend on it
            let ok_exit = r.exit_code == Some(0) || r.exit_code == Some(s.expect_exit) || s.expect_exit == ANY_EXIT;
            if !ok_exit {
                out.push(Violation::new("X5-quiet-quit", &sig("exit"), format!("consumer quit early: exit status {:?} (stderr: {})", r.exit_code, short(&r.stderr))));
            }
            if !r.stderr.is_empty() && !s.stderr_may_be_nonempty {
                out.push(Violation::new("X5-quiet-quit", &sig("stderr"), format!("consumer quit early: stderr not empty: {}", short(&r.stderr))));
            }
            if refi.ok && !(got.len() <= refi.delivered.len() && got[..] == refi.delivered[..got.len()]) {
                out.push(Violation::new("X2-prefix", &sig("not-a-prefix"), "bytes the consumer read are not a prefix of the fault-free output".to_string()));
            }
        }
    }
    out
}

pub fn ref_info(s: &Scenario, r: &RunResult) -> RefInfo {
    let ws = r.channel_writes();
    let mut before = Vec::new();
    let mut tot = 0usize;
    for w in &ws {
        if w.get("inj") == Some("eintr") {
            continue;
        }
        before.push(tot);
        if w.num("ret") > 0 {
            tot += w.num("ret") as usize;
        }
    }
    RefInfo { delivered: delivered(s, r), n_writes: before.len(), exit: r.exit_code, stderr: r.stderr.clone(), wtot_before: before, ok: !r.timed_out }
}

// ---------------------------------------------------------------------------
// scenario generation

const PAGER_VALUES: &[&str] = &["less", "less -FX", "less --some-flag", "mypager", "mypager --opt x", "more", "most", "nosuchpager", "otherpager -z"];

/// Shell-like splitting (blanks; single and double quotes group), as delta does with shell_words.
fn split_words(s: &str) -> Vec<String> {
    let mut out = Vec::new();
    let mut cur = String::new();
    let mut in_word = false;
    let mut quote: Option<char> = None;
    let mut escaped = false;
    for c in s.chars() {
        if escaped {
            cur.push(c);
            in_word = true;
            escaped = false;
            continue;
        }
        match quote {
            Some(q) if c == q => quote = None,
            Some('"') if c == '\\' => escaped = true,
            Some(_) => cur.push(c),
            None => match c {
                '\\' => escaped = true,
                '\'' | '"' => {
                    quote = Some(c);
                    in_word = true;
                }
                ' ' | '\t' => {
                    if in_word {
                        out.push(std::mem::take(&mut cur));
                        in_word = false;
                    }
                }
                _ => {
                    cur.push(c);
                    in_word = true;
                }
            },
        }
    }
    if in_word {
        out.push(cur);
    }
    out
}

fn stub_exists(name: &str) -> bool {
    name != "nosuchpager"
}

/// Reference model of the documented pager selection.
pub fn pager_model(cli: Option<&str>, gitcfg: Option<&str>, delta_pager: Option<&str>, bat_pager: Option<&str>, pager: Option<&str>) -> PagerModel {
    let base = |p: &str| -> String { p.rsplit('/').next().unwrap_or(p).to_string() };
    let user = |v: &str, source: &str| -> PagerModel {
        let w = split_words(v);
        let name = base(&w[0]);
        if !stub_exists(&name) {
            return PagerModel { name: None, args: ArgsRule::DeltaChoice, source: source.into() };
        }
        let args = w[1..].to_vec();
        if name == "less" && args.is_empty() {
            PagerModel { name: Some(name), args: ArgsRule::DeltaChoice, source: source.into() }
        } else {
            PagerModel { name: Some(name), args: ArgsRule::Verbatim(args), source: source.into() }
        }
    };
    if let Some(v) = cli {
        return user(v, "--pager");
    }
    if let Some(v) = gitcfg {
        return user(v, "delta.pager");
    }
    if let Some(v) = delta_pager {
        return user(v, "DELTA_PAGER");
    }
    // BAT_PAGER / PAGER: only the program is taken; its arguments are delta's to choose
    let generic = |v: &str, source: &str, replace_more_most: bool| -> PagerModel {
        let w = split_words(v);
        let mut name = base(&w[0]);
        if replace_more_most && (name == "more" || name == "most") {
            name = "less".into();
        }
        if !stub_exists(&name) {
            return PagerModel { name: None, args: ArgsRule::DeltaChoice, source: source.into() };
        }
        if name == "less" {
            PagerModel { name: Some(name), args: ArgsRule::DeltaChoice, source: source.into() }
        } else {
            PagerModel { name: Some(name), args: ArgsRule::Verbatim(vec![]), source: source.into() }
        }
    };
    if let Some(v) = bat_pager {
        return generic(v, "BAT_PAGER", false);
    }
    if let Some(v) = pager {
        return generic(v, "PAGER", true);
    }
    PagerModel { name: Some("less".into()), args: ArgsRule::DeltaChoice, source: "default".into() }
}

fn gen_pager_env(rng: &mut Rng, spec: &mut RunSpec, allow_config: bool) -> PagerModel {
    let mut pick = |rng: &mut Rng, p: u64| -> Option<String> {
        if rng.chance(p, 100) {
            Some(rng.pick(PAGER_VALUES).to_string())
        } else {
            None
        }
    };
    let cli = if allow_config { pick(rng, 20) } else { None };
    let gitcfg = if allow_config { pick(rng, 20) } else { None };
    let delta_pager = pick(rng, 30);
    let bat_pager = pick(rng, 25);
    let pager = pick(rng, 40);
    if let Some(v) = &cli {
        spec.args.insert(0, v.clone());
        spec.args.insert(0, "--pager".into());
    }
    if let Some(v) = &gitcfg {
        spec.args.retain(|a| a != "--no-gitconfig");
        let mut gc = spec.gitconfig.clone().unwrap_or_default();
        gc.push_str(&format!("[delta]\n\tpager = {}\n", v));
        spec.gitconfig = Some(gc);
    }
    if let Some(v) = &delta_pager {
        spec.env.push(("DELTA_PAGER".into(), v.clone()));
    }
    if let Some(v) = &bat_pager {
        spec.env.push(("BAT_PAGER".into(), v.clone()));
    }
    if let Some(v) = &pager {
        spec.env.push(("PAGER".into(), v.clone()));
    }
    pager_model(cli.as_deref(), gitcfg.as_deref(), delta_pager.as_deref(), bat_pager.as_deref(), pager.as_deref())
}

fn body_tokens(lines: &[gen::GLine]) -> Vec<u32> {
    lines.iter().filter(|l| l.kind != gen::LineKind::HunkHeader).filter_map(|l| l.token.as_ref().map(|t| simcore::text::token_num(t))).collect()
}

pub fn gen_scenario(seed: u64, idx: usize, big: bool) -> Scenario {
    gen_scenario_ext(seed, idx, big, false)
}

pub fn gen_scenario_ext(seed: u64, idx: usize, big: bool, big_stderr: bool) -> Scenario {
    gen_scenario_full(seed, idx, big, big_stderr, None)
}

/// `huge`: Some(kind) forces that scenario kind with an input of several hundred KiB (far beyond
/// the capacity of a pipe), so that a producer can still be blocked in write(2) when the consumer leaves.
pub fn gen_scenario_full(seed: u64, idx: usize, big: bool, big_stderr: bool, huge: Option<&str>) -> Scenario {
    let mut rng = Rng::new(mix(seed, &[tag("C18"), tag("scenario"), idx as u64]));
    let rng = &mut rng;
    let kind_roll = rng.below(100);
    let kind = if let Some(k) = huge {
        k
    } else if big_stderr {
        "wrapped"
    } else if kind_roll < 40 {
        "stdin"
    } else if kind_roll < 55 {
        "diff2"
    } else if kind_roll < 80 {
        "wrapped"
    } else {
        "oneshot"
    };
    let mut spec = RunSpec::default();
    spec.plan = Plan::basic(mix(seed, &[tag("hash"), idx as u64]));
    let opts = gen::random_delta_opts(rng);
    let mut gp = gen::random_params(rng, opts.line_buffer_size.min(8));
    if big {
        gp.sections = (0..rng.range(8, 14)).map(|_| *rng.pick(&[gen::SectionKind::Modified, gen::SectionKind::Added, gen::SectionKind::Deleted])).collect();
        gp.max_run = 60;
        gp.max_hunks = 4;
    }
    if huge.is_some() {
        gp.flavor = gen::Flavor::Git;
        gp.sections = (0..rng.range(500, 600)).map(|_| *rng.pick(&[gen::SectionKind::Modified, gen::SectionKind::Added, gen::SectionKind::Deleted])).collect();
        gp.max_run = 60;
        gp.max_hunks = 4;
    }
    let lines = gen::generate(rng, &gp);
    let diff = gen::to_bytes(&lines);
    let mut tokens = body_tokens(&lines);
    let mut sub = String::new();
    let mut expect_exit = 0;
    let mut stderr_may = false;
    let mut check_sel = true;
    spec.args = opts.args.clone();

    let paging_roll = rng.below(100);
    let mut paging = if paging_roll < 35 {
        "never"
    } else if paging_roll < 80 {
        "always"
    } else {
        "auto"
    }
    .to_string();

    match kind {
        "stdin" => {
            let what = rng.below(10);
            if what < 7 {
                sub = "diff".into();
                spec.stdin = diff.into();
            } else if what == 7 {
                sub = "blame".into();
                let n = rng.range(3, 30);
                spec.stdin = gen::blame_input(rng, n).into();
                tokens = (0..n as u32).collect();
            } else if what == 8 {
                sub = "grep".into();
                let n = rng.range(3, 30);
                spec.stdin = gen::grep_input(rng, n).into();
                tokens = (0..n as u32).collect();
            } else {
                sub = "text".into();
                let n = rng.range(1, 30);
                spec.stdin = gen::plain_text(rng, n).into();
                tokens = (0..n as u32).collect();
            }
        }
        "diff2" => {
            // delta A B: stub git prints a diff and exits like `git diff --no-index`
            let st = if huge.is_some() { 1 } else { *rng.pick(&[0, 1, 1, 1, 2, 3]) };
            sub = format!("status{}", st);
            expect_exit = st;
            spec.files = vec![("a.txt".into(), Blob::from("one\n")), ("b.txt".into(), Blob::from("two\n"))];
            // operands: regular files or process substitutions (`delta <(cmd) file`)
            let ops: &[(&str, &str)] = &[("a.txt", "b.txt"), ("a.txt", "b.txt"), ("/dev/fd/63", "b.txt"), ("a.txt", "/proc/self/fd/12"), ("/dev/fd/63", "/dev/fd/62")];
            let (oa, ob) = *rng.pick(ops);
            if rng.chance(1, 4) {
                spec.args.push(format!("--diff-args={}", rng.pick(&["-U5", "-w", "--minimal -U1"])));
            }
            spec.args.push(oa.into());
            spec.args.push(ob.into());
            if oa != "a.txt" || ob != "b.txt" {
                sub = format!("{}-procsubst", sub);
            }
            let out = if st == 0 { Vec::new() } else { diff };
            if st == 0 {
                tokens.clear();
            }
            let stderr = if st >= 2 { "error: Could not access 'x'\n" } else { "" };
            stderr_may = st >= 2;
            let gv = (*rng.pick(&["git version 2.45.1", "git version 2.39.5", "git version 2.42.0", "git version 2.30.1 (Apple Git-130)"])).to_string();
            spec.child = Some(ChildSetup { names: vec!["git".into(), "diff".into()], stdout: out.into(), stderr: stderr.into(), stderr_first: rng.chance(1, 2), exit: st, git_version: gv, linger_ms: 0 });
        }
        "wrapped" => {
            let cmds: &[(&str, &[&str])] = &[
                ("git", &["diff"]),
                ("git", &["show", "HEAD"]),
                ("git", &["log", "-p"]),
                ("git", &["blame", "src/main.rs"]),
                ("git", &["grep", "-n", "fn"]),
                ("git", &["diff", "--stat", "-p"]),
                ("rg", &["fn", "src"]),
            ];
            let (bin, a) = if huge.is_some() { cmds[0] } else { *rng.pick(cmds) };
            sub = format!("{}-{}", bin, a[0]);
            // exit statuses, and death by a signal (1000 + signal number: no status to pass on)
            let st = *rng.pick(&[0, 0, 1, 2, 3, 128, 129, 255, 1009, 1015]);
            expect_exit = if st >= 1000 { ANY_EXIT } else { st };
            if st >= 1000 {
                sub = format!("{}-killed", sub);
            }
            spec.args.push(bin.into());
            for x in a {
                spec.args.push((*x).into());
            }
            let (out, toks) = match (bin, a[0]) {
                ("git", "blame") => {
                    let n = rng.range(3, 25);
                    (gen::blame_input(rng, n), (0..n as u32).collect())
                }
                ("git", "grep") => {
                    let n = rng.range(3, 25);
                    (gen::grep_input(rng, n), (0..n as u32).collect())
                }
                ("rg", _) => {
                    // rg --json output
                    let n = rng.range(2, 12);
                    let mut s = String::new();
                    s.push_str("{\"type\":\"begin\",\"data\":{\"path\":{\"text\":\"src/x.rs\"}}}\n");
                    for i in 0..n {
                        s.push_str(&format!("{{\"type\":\"match\",\"data\":{{\"path\":{{\"text\":\"src/x.rs\"}},\"lines\":{{\"text\":\"T{:06} fn abc() {{}}\\n\"}},\"line_number\":{},\"absolute_offset\":{},\"submatches\":[{{\"match\":{{\"text\":\"fn\"}},\"start\":8,\"end\":10}}]}}}}\n", i, i + 1, i * 20));
                    }
                    s.push_str("{\"type\":\"end\",\"data\":{\"path\":{\"text\":\"src/x.rs\"},\"binary_offset\":null,\"stats\":{\"elapsed\":{\"secs\":0,\"nanos\":1,\"human\":\"0s\"},\"searches\":1,\"searches_with_match\":1,\"bytes_searched\":1,\"bytes_printed\":1,\"matched_lines\":1,\"matches\":1}}}\n");
                    (s.into_bytes(), (0..n as u32).collect())
                }
                _ => (diff, tokens.clone()),
            };
            tokens = toks;
            // up to and beyond the capacity of a pipe (64 KiB): the child must never block on stderr
            let stderr_len = if big_stderr { if idx % 2 == 0 { 70_000usize } else { 200_000 } } else { *rng.pick(&[0usize, 0, 40, 400, 4000, 70_000]) };
            if stderr_len >= 65_536 {
                sub = format!("{}-stderr>=64k", sub);
            }
            let mut stderr: Vec<u8> = Vec::new();
            let mut i = 0;
            // one time in three some lines are not valid UTF-8 (a Latin-1 file name in a warning)
            let latin1 = rng.chance(1, 3) || (big_stderr && idx % 2 == 1);
            while stderr.len() < stderr_len {
                if latin1 && i % 5 == 1 {
                    stderr.extend_from_slice(b"warning: in the working copy of 'caf\xe9.txt', LF will be replaced by CRLF\n");
                } else {
                    stderr.extend_from_slice(format!("warning: something happened, line {}\n", i).as_bytes());
                }
                i += 1;
            }
            if latin1 && stderr_len > 0 {
                sub = format!("{}-latin1stderr", sub);
            }
            stderr_may = true;
            spec.child = Some(ChildSetup { names: vec!["git".into(), "rg".into()], stdout: out.into(), stderr: stderr.into(), stderr_first: rng.chance(1, 2), exit: st, git_version: "git version 2.45.1".into(), linger_ms: 0 });
        }
        _ => {
            let flags: &[&str] = &["--show-config", "--version", "--help", "--show-colors", "--list-languages", "--list-syntax-themes", "--show-syntax-themes", "--parse-ansi", "--generate-completion"];
            let fl = *rng.pick(flags);
            sub = fl.trim_start_matches('-').to_string();
            spec.args = vec!["--no-gitconfig".into(), "--width".into(), "120".into(), fl.into()];
            if fl == "--generate-completion" {
                spec.args.push((*rng.pick(&["bash", "zsh", "fish"])).into());
            }
            if fl == "--show-themes" || fl == "--show-syntax-themes" {
                spec.stdin = diff.into();
            }
            if fl == "--parse-ansi" {
                spec.stdin = Blob::from("\x1b[31mred\x1b[0m plain \x1b[1;32mbold green\x1b[0m\n\x1b[38;5;100mxx\x1b[0m\n");
            }
            tokens.clear();
            check_sel = false;
            paging = "auto".into();
        }
    }

    let mut model = None;
    if kind != "oneshot" {
        spec.args.insert(0, paging.clone());
        spec.args.insert(0, "--paging".into());
    }
    // pager stubs are always installed (a run with paging off must simply not use them)
    let mut pg = PagerSetup { names: vec!["less".into(), "mypager".into(), "more".into(), "most".into(), "otherpager".into()], mode: "gate".into(), exit_code: *rng.pick(&[0, 0, 0, 1]), less_version: (*rng.pick(&["less 487 (GNU regular expressions)", "less 581.2 (PCRE2 regular expressions)", "less 643", "garbage"])).to_string() };
    if kind == "oneshot" {
        pg.exit_code = 0;
    }
    if paging != "never" || kind == "oneshot" {
        let m = gen_pager_env(rng, &mut spec, kind != "oneshot");
        model = Some(m);
    } else if rng.chance(1, 2) {
        // environment says "use a pager", --paging never must win
        spec.env.push(("PAGER".into(), "mypager".into()));
    }
    spec.pager = Some(pg);
    Scenario { name: format!("s{}", idx), kind: kind.into(), sub, spec, paging, expect_exit, tokens, pager_model: model, stderr_may_be_nonempty: stderr_may, check_selection: check_sel, light: false }
}

// ---------------------------------------------------------------------------
// driver

#[derive(Clone, Debug, Serialize, Deserialize)]
pub struct Task {
    pub scenario: usize,
    pub fault: Fault,
}

pub struct Outcome {
    pub violations: Vec<Violation>,
    pub fired: bool,
    pub events: usize,
    pub fingerprint: u64,
}

fn run_one(env: &Env, ctx: &Ctx, s: &Scenario, f: &Fault, refi: &RefInfo) -> Outcome {
    let spec = apply(s, f);
    match run(env, &spec, &ctx.dir.join("run"), false) {
        Ok(r) => {
            let fired = match f {
                Fault::None => true,
                Fault::Epipe { .. } => r.delta_events().any(|e| e.kind == "W" && e.get("inj") == Some("fail")),
                Fault::Transparent { .. } => r.delta_events().any(|e| matches!(e.get("inj"), Some("eintr") | Some("short") | Some("chunk"))),
                Fault::PagerQuit { .. } => r.events.iter().any(|e| e.who == 'P' && e.kind == "QUIT"),
                Fault::StdoutQuit { .. } => true,
                Fault::Stall => r.events.iter().any(|e| e.who == 'P' && e.kind == "STALL"),
                Fault::Sigint { .. } => r.delta_events().any(|e| e.kind == "SIGINT"),
            };
            Outcome { violations: evaluate(s, f, refi, &r), fired, events: r.events.len(), fingerprint: simcore::rng::fnv64(r.fingerprint().as_bytes()) }
        }
        Err(e) => {
            eprintln!("HARNESS-ERROR: run failed: {}", e);
            Outcome { violations: vec![], fired: false, events: 0, fingerprint: 0 }
        }
    }
}

pub struct Budget {
    pub huge_k_samples: usize,
    pub scenarios: usize,
    pub big_scenarios: usize,
    pub max_k_per_scenario: usize,
    pub transparent_per_scenario: usize,
    pub quit_per_scenario: usize,
}

pub fn budget(tier: &str) -> Budget {
    if tier == "thorough" {
        Budget { huge_k_samples: 200, scenarios: 1200, big_scenarios: 40, max_k_per_scenario: 100000, transparent_per_scenario: 4, quit_per_scenario: 3 }
    } else {
        Budget { huge_k_samples: 12, scenarios: 32, big_scenarios: 2, max_k_per_scenario: 400, transparent_per_scenario: 2, quit_per_scenario: 2 }
    }
}

fn replay_json(s: &Scenario, f: &Fault, v: &Violation, seed: u64) -> serde_json::Value {
    json!({"property": "C18", "engine": "E1-proc", "seed": seed, "oracle": v.oracle, "signature": v.signature, "message": v.message, "scenario": s, "fault": f})
}

/// Re-run (reference + fault) and report whether a violation with the same oracle shows up.
pub fn reproduces(env: &Env, ctx: &Ctx, s: &Scenario, f: &Fault, oracle: &str) -> Option<Violation> {
    let refi = match run(env, &apply(s, &Fault::None), &ctx.dir.join("run"), false) {
        Ok(r) => ref_info(s, &r),
        Err(_) => RefInfo::default(),
    };
    let o = run_one(env, ctx, s, f, &refi);
    o.violations.into_iter().find(|v| v.oracle == oracle)
}

/// Shrink the scenario while the same oracle keeps failing.
fn minimise(env: &Env, ctx: &Ctx, s: &Scenario, f: &Fault, v: &Violation) -> (Scenario, Fault) {
    let mut best = s.clone();
    let mut bestf = f.clone();
    let mut budget = 60usize;
    if v.oracle == "X6-terminates" {
        // every re-execution of a hang costs a full timeout: report it as found
        return (best, bestf);
    }
    // 1. fewer input lines (stdin or child stdout), keeping whole lines
    let shrink_blob = |b: &Blob, keep: &[usize]| -> Blob {
        let lines: Vec<&[u8]> = b.0.split_inclusive(|c| *c == b'\n').collect();
        let mut v = Vec::new();
        for i in keep {
            v.extend_from_slice(lines[*i]);
        }
        Blob(v)
    };
    let is_epipe = matches!(f, Fault::Epipe { .. });
    if !is_epipe {
        let use_child = best.spec.child.is_some() && best.spec.stdin.0.is_empty();
        let blob = if use_child { best.spec.child.as_ref().unwrap().stdout.clone() } else { best.spec.stdin.clone() };
        let n = blob.0.split_inclusive(|c| *c == b'\n').count();
        if n > 1 {
            let idxs: Vec<usize> = (0..n).collect();
            let kept = simcore::text::ddmin(idxs, &mut budget, &mut |keep: &[usize]| {
                let mut cand = best.clone();
                cand.tokens.clear();
                let nb = shrink_blob(&blob, keep);
                if use_child {
                    cand.spec.child.as_mut().unwrap().stdout = nb;
                } else {
                    cand.spec.stdin = nb;
                }
                reproduces(env, ctx, &cand, &bestf, &v.oracle).is_some()
            });
            if kept.len() < n {
                let nb = shrink_blob(&blob, &kept);
                best.tokens.clear();
                if use_child {
                    best.spec.child.as_mut().unwrap().stdout = nb;
                } else {
                    best.spec.stdin = nb;
                }
            }
        }
    }
    // 2. fewer options (pairs "--opt value" are dropped together when the value does not start with '-')
    let mut i = 0;
    while i < best.spec.args.len() && budget > 0 {
        let a = best.spec.args[i].clone();
        if !a.starts_with("--") || a == "--paging" || a == "--width" || a == "--no-gitconfig" {
            i += 1;
            continue;
        }
        let takes_value = i + 1 < best.spec.args.len() && !best.spec.args[i + 1].starts_with("--") && !["git", "rg", "a.txt"].contains(&best.spec.args[i + 1].as_str());
        let mut cand = best.clone();
        cand.spec.args.remove(i);
        if takes_value {
            cand.spec.args.remove(i);
        }
        budget -= 1;
        if reproduces(env, ctx, &cand, &bestf, &v.oracle).is_some() {
            best = cand;
        } else {
            i += 1;
        }
    }
    // 3. simpler fault: the smallest failing k
    if let Fault::Epipe { k } = bestf.clone() {
        for kk in 0..k {
            if budget == 0 {
                break;
            }
            budget -= 1;
            let cf = Fault::Epipe { k: kk };
            if reproduces(env, ctx, &best, &cf, &v.oracle).is_some() {
                bestf = cf;
                break;
            }
            if kk >= 5 {
                break;
            }
        }
    }
    (best, bestf)
}

pub fn main_c18(env: &Env, tier: &str, seed: u64, replay: Option<&str>) -> i32 {
    let t0 = Instant::now();
    let known = load_known();
    if let Some(path) = replay {
        return replay_file(env, path);
    }
    let b = budget(tier);
    let mut scenarios: Vec<Scenario> = (0..b.scenarios).map(|i| gen_scenario(seed, i, false)).collect();
    for i in 0..b.big_scenarios {
        let mut s = gen_scenario(seed, 1_000_000 + i, true);
        s.name = format!("big{}", i);
        scenarios.push(s);
    }
    // fixed scenarios: every one-shot flag and every wrapped command at least once, whatever the seed
    scenarios.extend(fixed_scenarios(seed));
    scenarios.extend(explicit_cells(seed));

    // phase 1: fault-free reference runs (also evaluated: X1-X4)
    let none = Fault::None;
    let refs: Vec<(RefInfo, Outcome)> = par_map(&env.scratch, &scenarios, &|ctx, _i, s: &Scenario| {
        let spec = apply(s, &none);
        match run(env, &spec, &ctx.dir.join("run"), false) {
            Ok(r) => {
                let refi = ref_info(s, &r);
                let mut v = evaluate(s, &none, &refi, &r);
                // X2: a paged run delivers exactly what `--paging never` prints
                if s.kind != "oneshot" && s.paging != "never" && !r.timed_out {
                    let mut never = s.clone();
                    let mut given = false;
                    for i in 0..never.spec.args.len() {
                        if never.spec.args[i] == "--paging" {
                            never.spec.args[i + 1] = "never".into();
                            given = true;
                        } else if never.spec.args[i].starts_with("--paging=") {
                            never.spec.args[i] = "--paging=never".into();
                            given = true;
                        }
                    }
                    // a scenario that leaves the decision to delta (no --paging at all): the comparison
                    // run gets the option in front (used to be compared with a second paged run, whose
                    // stdout is empty - noted as "did not reproduce" nine times per run, never reported)
                    if !given {
                        never.spec.args.insert(0, "--paging=never".into());
                    }
                    if let Ok(r2) = run(env, &apply(&never, &none), &ctx.dir.join("run"), false) {
                        // a comparison run that itself went wrong (killed, other status) proves nothing
                        if !r2.timed_out && r2.exit_code == r.exit_code && r2.stdout != refi.delivered {
                            v.push(Violation::new("X2-delivery", &format!("{}:{}:none:paged-differs", s.kind, s.sub), format!("what reached the pager/stdout in --paging {} ({} bytes) differs from --paging never ({} bytes)", s.paging, refi.delivered.len(), r2.stdout.len())));
                        }
                    }
                }
                let o = Outcome { violations: v, fired: true, events: r.events.len(), fingerprint: simcore::rng::fnv64(r.fingerprint().as_bytes()) };
                (refi, o)
            }
            Err(e) => {
                eprintln!("HARNESS-ERROR: {}", e);
                (RefInfo::default(), Outcome { violations: vec![], fired: false, events: 0, fingerprint: 0 })
            }
        }
    })
    .into_iter()
    .map(|x| x.unwrap())
    .collect();

    // phase 2: fault tasks
    let mut tasks: Vec<Task> = Vec::new();
    for (si, s) in scenarios.iter().enumerate() {
        let refi = &refs[si].0;
        if !refi.ok || s.light {
            continue;
        }
        let mut rng = Rng::new(mix(seed, &[tag("C18"), tag("faults"), si as u64]));
        // (a) EPIPE at every write index
        let n = refi.n_writes;
        if std::env::var("DELTASIM_DEBUG_SIZES").is_ok() {
            eprintln!("SIZE {} {}/{} paging={} writes={}", s.name, s.kind, s.sub, s.paging, n);
        }
        if n <= b.max_k_per_scenario && !s.name.starts_with("huge-") {
            for k in 0..n {
                tasks.push(Task { scenario: si, fault: Fault::Epipe { k: k as i64 } });
            }
        } else if n > 0 {
            // very long write sequences (outputs of hundreds of KiB; in the quick tier anything beyond
            // 400 writes): the first writes, the last one and a seeded sample in between
            let mut ks: BTreeSet<usize> = [0usize, 1, 2, n - 1].iter().copied().filter(|k| *k < n).collect();
            let extra = if s.name.starts_with("huge-") { b.huge_k_samples } else { 150 };
            if !s.name.starts_with("huge-") {
                for k in 0..40.min(n) {
                    ks.insert(k);
                }
            }
            for _ in 0..extra {
                ks.insert(rng.range(0, n - 1));
            }
            for k in ks {
                tasks.push(Task { scenario: si, fault: Fault::Epipe { k: k as i64 } });
            }
        }
        // (c) transparent faults
        for _ in 0..b.transparent_per_scenario {
            let wl = rng.range(1, 7);
            let wplan: Vec<i64> = (0..wl).map(|_| *rng.pick(&[-1i64, -1, 0, 1, 2, 7, 33])).collect();
            let rl = rng.range(1, 5);
            let rchunks: Vec<i64> = (0..rl).map(|_| *rng.pick(&[0i64, 1, 3, 17, 64, 4096])).collect();
            // a plan consisting only of EINTR would never make progress
            let mut wplan = wplan;
            if wplan.iter().all(|x| *x == 0) {
                wplan.push(-1);
            }
            let mut rchunks = rchunks;
            if rchunks.iter().all(|x| *x == 0) {
                rchunks.push(5);
            }
            tasks.push(Task { scenario: si, fault: Fault::Transparent { wplan, rchunks } });
        }
        let paged = s.paging != "never" && s.pager_model.as_ref().map(|m| m.name.is_some()).unwrap_or(false);
        // (b) the consumer really goes away
        for _ in 0..b.quit_per_scenario {
            let total = refi.delivered.len();
            let nq = if total == 0 { 0 } else { rng.range(0, total) };
            if paged {
                tasks.push(Task { scenario: si, fault: Fault::PagerQuit { n: nq, how: 0 } });
            } else if s.paging == "never" && s.kind != "oneshot" {
                tasks.push(Task { scenario: si, fault: Fault::StdoutQuit { n: nq } });
            }
        }
        if paged && !s.light {
            // the pager is gone before delta writes its first byte, or ends badly: non-zero status, killed
            let total = refi.delivered.len();
            for (nq, how) in [(0usize, 0i32), (0, 1), (total / 2, 1009), (1, 130), (total / 3, 1015)] {
                tasks.push(Task { scenario: si, fault: Fault::PagerQuit { n: nq, how } });
            }
        }
        if s.kind == "oneshot" {
            // the one-shot flags that page (--help, --show-colors, ...): SIGINT while delta waits for the pager
            tasks.push(Task { scenario: si, fault: Fault::Sigint { at: "W".into(), stall: false } });
        }
        if paged && s.kind != "oneshot" {
            // (d) stalled pager, (e) SIGINT at logged points
            tasks.push(Task { scenario: si, fault: Fault::Stall });
            let at = if n > 0 { format!("w:{}", rng.range(0, n - 1)) } else { "W".to_string() };
            tasks.push(Task { scenario: si, fault: Fault::Sigint { at, stall: false } });
            tasks.push(Task { scenario: si, fault: Fault::Sigint { at: "W".into(), stall: rng.chance(1, 2) } });
            if s.name.starts_with("big") {
                tasks.push(Task { scenario: si, fault: Fault::Sigint { at: "B".into(), stall: true } });
            }
        }
    }

    let results: Vec<Outcome> = par_map(&env.scratch, &tasks, &|ctx, _i, t: &Task| run_one(env, ctx, &scenarios[t.scenario], &t.fault, &refs[t.scenario].0)).into_iter().map(|x| x.unwrap()).collect();

    // collect
    let mut ev = Evidence::new("C18", tier, seed, "fault_enumeration");
    let mut all: Vec<(usize, Fault, Violation)> = Vec::new();
    for (si, (_, o)) in refs.iter().enumerate() {
        for v in &o.violations {
            all.push((si, Fault::None, v.clone()));
        }
    }
    let mut fired: BTreeMap<String, u64> = BTreeMap::new();
    let mut planned: BTreeMap<String, u64> = BTreeMap::new();
    let mut distinct: BTreeSet<(usize, String, i64)> = BTreeSet::new();
    let mut fingerprints: BTreeSet<u64> = BTreeSet::new();
    let mut total_events = 0usize;
    for (si, (_, o)) in refs.iter().enumerate() {
        *fired.entry("none".into()).or_default() += 1;
        distinct.insert((si, "none".into(), -1));
        fingerprints.insert(o.fingerprint);
        total_events += o.events;
    }
    for (t, o) in tasks.iter().zip(results.iter()) {
        *planned.entry(t.fault.kind().into()).or_default() += 1;
        if o.fired {
            *fired.entry(t.fault.kind().into()).or_default() += 1;
            let idx = match &t.fault {
                Fault::Epipe { k } => *k,
                Fault::PagerQuit { n, how } => *n as i64 * 10_000 + *how as i64,
                Fault::StdoutQuit { n } => *n as i64,
                _ => simcore::rng::fnv64(format!("{:?}", t.fault).as_bytes()) as i64,
            };
            distinct.insert((t.scenario, t.fault.kind().into(), idx));
        }
        fingerprints.insert(o.fingerprint);
        total_events += o.events;
        for v in &o.violations {
            all.push((t.scenario, t.fault.clone(), v.clone()));
        }
    }

    // known findings vs new violations
    let mut new_violations: Vec<(usize, Fault, Violation)> = Vec::new();
    let mut known_hit: BTreeMap<String, (String, u64)> = BTreeMap::new();
    for (si, f, v) in all {
        if let Some(k) = known.matches("C18", &v) {
            let e = known_hit.entry(k.signature.clone()).or_insert((k.what.clone(), 0));
            e.1 += 1;
        } else {
            new_violations.push((si, f, v));
        }
    }
    for (sigk, (what, n)) in &known_hit {
        println!("KNOWN-FINDING: property=C18 {} [{}] ({} runs)", what, sigk, n);
    }

    let mut exit = 0;
    let ctx = Ctx { worker: 0, dir: env.scratch.join("w0"), stop: &std::sync::atomic::AtomicBool::new(false) };
    let mut reported: BTreeSet<String> = BTreeSet::new();
    let mut unreproducible = 0u64;
    for (si, f, v) in &new_violations {
        if reported.contains(&v.signature) || reported.len() >= 5 {
            continue;
        }
        // a violation counts only if it replays
        let s = &scenarios[*si];
        match reproduces(env, &ctx, s, f, &v.oracle) {
            None => {
                unreproducible += 1;
                eprintln!("NOTE: violation did not reproduce on replay, not reported: {} {}", v.oracle, v.message);
                continue;
            }
            Some(_) => {}
        }
        reported.insert(v.signature.clone());
        let (ms, mf) = minimise(env, &ctx, s, f, v);
        let mv = reproduces(env, &ctx, &ms, &mf, &v.oracle).unwrap_or_else(|| v.clone());
        let path = write_replay("C18", &format!("{}-{}", v.oracle, reported.len()), &replay_json(&ms, &mf, &mv, seed));
        println!("VIOLATION property=C18 replay={}", path.display());
        println!("  oracle={} scenario={}/{} fault={:?}", mv.oracle, ms.kind, ms.sub, mf);
        println!("  {}", mv.message);
        exit = 1;
    }

    ev.evaluations = (refs.len() + tasks.len()) as u64;
    ev.distinct_nontrivial = distinct.len() as u64;
    ev.rule = "one evaluation = one execution of the real delta binary under the syscall shim for a (scenario, fault) pair; EPIPE is enumerated at every output write index of the scenario's fault-free run (for the few scenarios with several hundred KiB of input, and in the quick tier for write sequences longer than 400: the first writes, the last one and a seeded sample), other fault kinds are seeded samples. distinct_nontrivial counts distinct (scenario, fault kind, fault index) triples whose fault was injected AND reached (an EPIPE planned beyond the last write, a stall that never happened etc. do not count).".into();
    for (k, v) in &fired {
        ev.counters.insert(format!("fault_fired.{}", k), *v);
    }
    for (k, v) in &planned {
        ev.counters.insert(format!("fault_planned.{}", k), *v);
    }
    let mut kinds: BTreeMap<String, u64> = BTreeMap::new();
    for s in &scenarios {
        *kinds.entry(format!("scenario.{}.{}.paging-{}", s.kind, s.sub, s.paging)).or_default() += 1;
    }
    for (k, v) in kinds {
        ev.counters.insert(k, v);
    }
    let mut sel: BTreeMap<String, u64> = BTreeMap::new();
    for s in &scenarios {
        if let Some(m) = &s.pager_model {
            *sel.entry(format!("pager_source.{}", m.source)).or_default() += 1;
        }
    }
    for (k, v) in sel {
        ev.counters.insert(k, v);
    }
    ev.counters.insert("scenarios".into(), scenarios.len() as u64);
    ev.counters.insert("logged_events_total".into(), total_events as u64);
    ev.counters.insert("distinct_event_histories".into(), fingerprints.len() as u64);
    ev.counters.insert("violations_not_reproduced_on_replay".into(), unreproducible);
    ev.counters.insert("known_finding_runs".into(), known_hit.values().map(|x| x.1).sum());
    ev.violations = reported.len() as u64;
    ev.exhaustive = false;
    ev.samples = tasks.iter().step_by((tasks.len() / 6).max(1)).take(6).map(|t| json!({"scenario": {"kind": scenarios[t.scenario].kind, "sub": scenarios[t.scenario].sub, "args": scenarios[t.scenario].spec.args, "env": scenarios[t.scenario].spec.env, "paging": scenarios[t.scenario].paging, "expect_exit": scenarios[t.scenario].expect_exit, "pager_model": scenarios[t.scenario].pager_model}, "fault": t.fault})).collect();
    ev.extra.insert("engine".into(), json!("E1-proc: real delta binary (release profile + debug assertions + overflow checks) under LD_PRELOAD syscall shim; stub peers"));
    ev.extra.insert("real_vs_stub".into(), json!({"real": ["all of delta (src/**), std, bat pager lookup, clap"], "stub": ["pager (less/more/most/custom)", "git", "rg", "diff", "less --version", "git --version", "terminal (never a tty)"]}));
    ev.extra.insert("simulated_steps".into(), json!({"logged_syscall_events": total_events}));
    ev.assumptions = vec![
        "the kernel schedules stub peers; their un-gated records may float, no oracle reads their position".into(),
        "EPIPE is injected at write(2)/writev(2) granularity on fd 1 and on the pipe to the pager".into(),
        "a violation is reported only if a second execution of the same (scenario, fault) reproduces it".into(),
        "pager-quit / stdout-quit runs use a real closed pipe: which write fails is the kernel's choice, the verdict is outcome independent".into(),
    ];
    ev.wall_s = t0.elapsed().as_secs_f64();
    let part = std::env::var("EVIDENCE_PART").unwrap_or_else(|_| format!("{}/evidence/C18.json", verif_root()));
    if let Err(e) = ev.write(&part) {
        eprintln!("HARNESS-ERROR: cannot write evidence: {}", e);
        return 2;
    }
    // sanity: every fault kind must have fired at least once, else the batch is insufficient
    for k in ["epipe", "transparent", "pager-quit", "stdout-quit", "stall", "sigint"] {
        if fired.get(k).copied().unwrap_or(0) == 0 {
            eprintln!("HARNESS-ERROR: fault kind {} never fired", k);
            if exit == 0 {
                exit = 2;
            }
        }
    }
    println!("C18 {}: {} scenarios, {} runs, {} distinct fault points reached, {} reported violations, {:.1}s", tier, scenarios.len(), ev.evaluations, ev.distinct_nontrivial, reported.len(), ev.wall_s);
    exit
}

/// Seed-independent coverage floor for the dimensions in which a defect is narrow: every
/// (pager source x value class) cell and every (operand class x git version x status) cell of
/// `delta A B`.  Evaluated fault-free only (selection, delivery, exit status, waiting).
pub fn explicit_cells(seed: u64) -> Vec<Scenario> {
    let mut out = Vec::new();
    let mut rng = Rng::new(mix(seed, &[tag("C18"), tag("cells")]));
    let gp = gen::GenParams { flavor: gen::Flavor::Git, sections: vec![gen::SectionKind::Modified], max_hunks: 1, pivot: 2, max_run: 3, with_commit_preamble: false, multibyte: false, no_newline_marker: false, similar_pairs: false, no_index_lines: false, no_prefix: false, line_number_class: 0, long_line_pct: 0, path_style: 0 };
    let lines = gen::generate(&mut rng, &gp);
    let diff = gen::to_bytes(&lines);
    let tokens = body_tokens(&lines);
    let pg = |code: i32| PagerSetup { names: vec!["less".into(), "mypager".into(), "more".into(), "most".into(), "otherpager".into(), "my pager".into()], mode: "gate".into(), exit_code: code, less_version: "less 581.2 (PCRE2 regular expressions)".into() };
    // A. pager selection
    let values: &[(&str, &str)] = &[("other-arg-named-delta", "mypager --log /x/delta.log"), ("other-arg-word-delta", "otherpager delta"), ("less-arg-named-delta", "less --log-file=/x/delta"), ("other-several-blanks", "mypager    --opt   x "), ("other-path-with-blank-quoted", "'@BIN@/my pager' --opt x"), ("other-path-with-blank-escaped", "@BIN@/my\\ pager"), ("less-fullpath-quoted", "\"@BIN@/less\""), ("other-quoted-args", "mypager --opt 'x y' \"-z\""), ("less-quoted-args", "less '-F' \"-X\""), ("less-bare", "less"), ("less-args", "less -FX"), ("less-fullpath", "@BIN@/less"), ("less-fullpath-args", "@BIN@/less -X"), ("other", "mypager"), ("other-args", "mypager --opt x"), ("other-fullpath", "@BIN@/otherpager"), ("more", "more"), ("most", "most"), ("missing", "nosuchpager")];
    for source in ["--pager", "delta.pager", "DELTA_PAGER", "BAT_PAGER", "PAGER", "default"] {
        for (vclass, value) in values {
            if source == "default" && *vclass != "less-bare" {
                continue;
            }
            // a backslash in a git config value is an escape character of that file format
            if source == "delta.pager" && value.contains('\\') {
                continue;
            }
            for paging in ["always", "auto"] {
                let mut spec = RunSpec::default();
                spec.plan = Plan::basic(mix(seed, &[tag("cellhash"), out.len() as u64]));
                spec.args = vec!["--paging".into(), paging.into(), "--no-gitconfig".into(), "--width".into(), "100".into()];
                spec.stdin = diff.clone().into();
                let (mut cli, mut gitcfg, mut dp, mut bp, mut pp) = (None, None, None, None, None);
                match source {
                    "--pager" => {
                        spec.args.insert(0, value.to_string());
                        spec.args.insert(0, "--pager".into());
                        cli = Some(*value);
                    }
                    "delta.pager" => {
                        spec.args.retain(|a| a != "--no-gitconfig");
                        spec.gitconfig = Some(format!("[delta]\n\tpager = {}\n", value));
                        gitcfg = Some(*value);
                    }
                    "DELTA_PAGER" => {
                        spec.env.push(("DELTA_PAGER".into(), value.to_string()));
                        dp = Some(*value);
                    }
                    "BAT_PAGER" => {
                        spec.env.push(("BAT_PAGER".into(), value.to_string()));
                        bp = Some(*value);
                    }
                    "PAGER" => {
                        spec.env.push(("PAGER".into(), value.to_string()));
                        pp = Some(*value);
                    }
                    _ => {}
                }
                // a lower-priority source that must lose
                if source != "PAGER" && source != "default" && rng.chance(1, 2) {
                    spec.env.push(("PAGER".into(), "otherpager -z".into()));
                    pp = Some("otherpager -z");
                }
                let m = pager_model(cli, gitcfg, dp, bp, pp);
                spec.pager = Some(pg(0));
                out.push(Scenario { name: format!("cell-pager-{}-{}-{}", source, vclass, paging), kind: "stdin".into(), sub: format!("sel-{}-{}", source.trim_start_matches('-'), vclass), spec, paging: paging.into(), expect_exit: 0, tokens: tokens.clone(), pager_model: Some(m), stderr_may_be_nonempty: false, check_selection: true, light: true });
            }
        }
    }
    // C. navigate (delta keeps a private copy of less's history file) x state of the data directory
    //    x less version: whatever happens to the history file, the selected pager is started, is told
    //    to pass colours through, and receives everything
    for (nclass, nav_args, nav_env, nav_gc) in [("flag", vec!["--navigate"], None, None), ("env", vec![], Some(("DELTA_NAVIGATE", "1")), None), ("gitconfig", vec![], None, Some("[delta]\n\tnavigate = true\n"))] {
        for (dclass, datadir) in [("writable", None), ("below-a-file", Some("/dev/null/share")), ("missing-unwritable", Some("/proc/sys/kernel/nonexistent/share")), ("empty-value", Some(""))] {
            for (vclass, lessver) in [("581", "less 581.2 (PCRE2 regular expressions)"), ("487", "less 487 (GNU regular expressions)"), ("529", "less 529"), ("530", "less 530 (POSIX regular expressions)"), ("633", "less 633 (PCRE2 regular expressions)"), ("busybox", "BusyBox v1.36.1 multi-call binary.")] {
                // the full version list for the writable directory, two versions for the others
                if dclass != "writable" && vclass != "581" && vclass != "529" {
                    continue;
                }
                for pager_src in ["default", "DELTA_PAGER-less", "PAGER-less-args", "DELTA_PAGER-other"] {
                    let mut spec = RunSpec::default();
                    spec.plan = Plan::basic(mix(seed, &[tag("cellhash-nav"), out.len() as u64]));
                    spec.args = vec!["--paging".into(), "always".into(), "--width".into(), "100".into()];
                    if nav_gc.is_none() {
                        spec.args.push("--no-gitconfig".into());
                    }
                    for a in &nav_args {
                        spec.args.push((*a).into());
                    }
                    if let Some((k, v)) = nav_env {
                        spec.env.push((k.into(), v.into()));
                    }
                    spec.gitconfig = nav_gc.map(|x| x.to_string());
                    if let Some(dd) = datadir {
                        spec.env.push(("XDG_DATA_HOME".into(), dd.into()));
                        if dd.is_empty() {
                            // no XDG directory: the fallback is below HOME, which is not a directory either
                            spec.env.push(("HOME".into(), "/dev/null".into()));
                        }
                    }
                    let (mut dp, mut pp) = (None, None);
                    match pager_src {
                        "DELTA_PAGER-less" => {
                            spec.env.push(("DELTA_PAGER".into(), "less".into()));
                            dp = Some("less");
                        }
                        "PAGER-less-args" => {
                            spec.env.push(("PAGER".into(), "less -X".into()));
                            pp = Some("less -X");
                        }
                        "DELTA_PAGER-other" => {
                            spec.env.push(("DELTA_PAGER".into(), "mypager --opt x".into()));
                            dp = Some("mypager --opt x");
                        }
                        _ => {}
                    }
                    spec.stdin = diff.clone().into();
                    let m = pager_model(None, None, dp, None, pp);
                    let mut setup = pg(0);
                    setup.less_version = lessver.into();
                    spec.pager = Some(setup);
                    out.push(Scenario { name: format!("cell-navigate-{}-{}-less{}-{}", nclass, dclass, vclass, pager_src), kind: "stdin".into(), sub: format!("nav-{}-{}-{}", nclass, dclass, pager_src), spec, paging: "always".into(), expect_exit: 0, tokens: tokens.clone(), pager_model: Some(m), stderr_may_be_nonempty: false, check_selection: true, light: true });
                }
            }
        }
    }
    // F. wrapped commands with delta's own options spelled in every way the command line allows
    //    (`--opt value`, `--opt=value`, `-oVALUE`, bundled short flags) in front of the command: the
    //    command is started and its status passed through
    for (cclass, cmd) in [("git-show", vec!["git", "show"]), ("git-log", vec!["git", "log"]), ("git-diff-args", vec!["git", "diff", "--stat", "-p"]), ("rg", vec!["rg", "needle"])] {
        for (sclass, opts) in [("separate", vec!["--paging", "never", "--width", "100"]), ("equals", vec!["--paging=never", "--width=100"]), ("short-attached", vec!["-w100", "--paging=never"]), ("short-bundled", vec!["-ns", "--paging", "never"]), ("none", vec![])] {
            for st in [0i32, 1, 7] {
                let mut spec = RunSpec::default();
                spec.plan = Plan::basic(mix(seed, &[tag("cellhash-wrapspell"), out.len() as u64]));
                spec.args = vec!["--no-gitconfig".into()];
                spec.args.extend(opts.iter().map(|x| x.to_string()));
                spec.args.extend(cmd.iter().map(|x| x.to_string()));
                let outp: Vec<u8> = if cmd[0] == "rg" { Vec::new() } else { diff.clone() };
                spec.child = Some(ChildSetup { names: vec!["git".into(), "rg".into()], stdout: outp.into(), stderr: Blob::default(), stderr_first: false, exit: st, git_version: "git version 2.45.1".into(), linger_ms: 0 });
                spec.pager = Some(pg(0));
                let paging = if sclass == "none" { "auto" } else { "never" };
                let m = if sclass == "none" { Some(pager_model(None, None, None, None, None)) } else { None };
                out.push(Scenario { name: format!("cell-wrapped-{}-{}-{}", cclass, sclass, st), kind: "wrapped".into(), sub: format!("spelling-{}-{}", cclass, sclass), spec, paging: paging.into(), expect_exit: st, tokens: if cmd[0] == "rg" { vec![] } else { tokens.clone() }, pager_model: m, stderr_may_be_nonempty: false, check_selection: sclass == "none", light: true });
            }
        }
    }
    // G. a wrapped command that closes its output and keeps running (a producer with clean-up work,
    //    `git log` waiting for a hook): its status exists only once it has ended, so delta must wait
    //    for the command itself, not for the end of its output - with and without a pager, and with
    //    the reader gone at the first write
    for (cclass, cmd) in [("git-diff", vec!["git", "diff"]), ("git-show", vec!["git", "show"]), ("rg", vec!["rg", "needle"])] {
        for paging in ["never", "always"] {
            for st in [0i32, 1, 3, 1000 + 15] {
                let mut spec = RunSpec::default();
                spec.plan = Plan::basic(mix(seed, &[tag("cellhash-linger"), out.len() as u64]));
                spec.args = vec!["--no-gitconfig".into(), "--paging".into(), paging.into(), "--width".into(), "100".into()];
                spec.args.extend(cmd.iter().map(|x| x.to_string()));
                let outp: Vec<u8> = if cmd[0] == "rg" { Vec::new() } else { diff.clone() };
                spec.child = Some(ChildSetup { names: vec!["git".into(), "rg".into()], stdout: outp.into(), stderr: Blob::default(), stderr_first: false, exit: st, git_version: "git version 2.45.1".into(), linger_ms: 300 });
                spec.pager = Some(pg(0));
                let m = if paging == "always" { Some(pager_model(None, None, None, None, None)) } else { None };
                let sub = if st >= 1000 { format!("lingers-{}-killed", cclass) } else { format!("lingers-{}", cclass) };
                out.push(Scenario { name: format!("cell-wrapped-lingers-{}-{}-{}", cclass, paging, st), kind: "wrapped".into(), sub, spec, paging: paging.into(), expect_exit: if st >= 1000 { ANY_EXIT } else { st }, tokens: if cmd[0] == "rg" { vec![] } else { tokens.clone() }, pager_model: m, stderr_may_be_nonempty: st >= 1000, check_selection: false, light: true });
            }
        }
    }
    // E. less with arguments of delta's choosing x what the user's LESS variable says: whatever is in
    //    there, less must be told to pass colours through
    for (lclass, lessvar) in [("git-default", "FRX"), ("dash-r", "-r"), ("prompt-with-r", "-i -Ppager"), ("colour-spec-with-r", "-Dd+r -Du+b"), ("long-option", "--ignore-case"), ("empty", ""), ("R-already", "-R -F")] {
        for pager_src in ["default", "DELTA_PAGER-less", "PAGER-less-args", "BAT_PAGER-less"] {
            for paging in ["always", "auto"] {
                let mut spec = RunSpec::default();
                spec.plan = Plan::basic(mix(seed, &[tag("cellhash-lessenv"), out.len() as u64]));
                spec.args = vec!["--paging".into(), paging.into(), "--no-gitconfig".into(), "--width".into(), "100".into()];
                spec.env.push(("LESS".into(), lessvar.into()));
                let (mut dp, mut bp, mut pp) = (None, None, None);
                match pager_src {
                    "DELTA_PAGER-less" => {
                        spec.env.push(("DELTA_PAGER".into(), "less".into()));
                        dp = Some("less");
                    }
                    "PAGER-less-args" => {
                        spec.env.push(("PAGER".into(), "less -X -S".into()));
                        pp = Some("less -X -S");
                    }
                    "BAT_PAGER-less" => {
                        spec.env.push(("BAT_PAGER".into(), "less".into()));
                        bp = Some("less");
                    }
                    _ => {}
                }
                spec.stdin = diff.clone().into();
                let m = pager_model(None, None, dp, bp, pp);
                spec.pager = Some(pg(0));
                out.push(Scenario { name: format!("cell-lessenv-{}-{}-{}", lclass, pager_src, paging), kind: "stdin".into(), sub: format!("lessenv-{}-{}", lclass, pager_src), spec, paging: paging.into(), expect_exit: 0, tokens: tokens.clone(), pager_model: Some(m), stderr_may_be_nonempty: false, check_selection: true, light: true });
            }
        }
    }
    // B. delta A B: operand class x git version x status
    for (oclass, oa, ob) in [
        ("regular", "a.txt", "b.txt"),
        ("subst-first", "/dev/fd/63", "b.txt"),
        ("subst-second", "a.txt", "/proc/self/fd/12"),
        ("subst-both", "/dev/fd/63", "/dev/fd/62"),
        // the same file twice, one side /dev/null, directories, operands that do not exist
        ("same-file", "a.txt", "a.txt"),
        ("same-file-other-spelling", "a.txt", "./a.txt"),
        ("dev-null", "/dev/null", "b.txt"),
        ("directories", "da", "db"),
        ("missing-both", "nope1", "nope2"),
        ("missing-same", "nope1", "nope1"),
        ("missing-one", "a.txt", "nope2"),
        // `--` in front of the file names (files named like the commands delta can launch are not a
        // cell: `delta git rg` is the launching form by design, whatever is in the directory)
        ("double-dash", "a.txt", "b.txt"),
    ] {
        // a git that answers --version with something unusable means: plain diff is the differ
        for gv in ["git version 2.39.5", "git version 2.42.0", "git version 2.45.1", "git version 1.9.1", "", "git version 2", "git version 2.39.3 (Apple Git-146)"] {
            let basic_operands = matches!(oclass, "regular" | "subst-first" | "subst-second" | "subst-both");
            if !basic_operands && !matches!(gv, "git version 2.45.1" | "") {
                continue;
            }
            if basic_operands && matches!(gv, "git version 2" | "git version 2.39.3 (Apple Git-146)") && oclass != "regular" && oclass != "subst-both" {
                continue;
            }
            for st in [0, 1, 2] {
                let mut spec = RunSpec::default();
                spec.plan = Plan::basic(mix(seed, &[tag("cellhash2"), out.len() as u64]));
                spec.args = vec!["--paging".into(), "never".into(), "--no-gitconfig".into(), "--width".into(), "100".into()];
                if oclass == "double-dash" {
                    spec.args.push("--".into());
                }
                spec.args.push(oa.into());
                spec.args.push(ob.into());
                spec.files = vec![("a.txt".into(), Blob::from("one\n")), ("b.txt".into(), Blob::from("two\n")), ("da/f.txt".into(), Blob::from("one\n")), ("db/f.txt".into(), Blob::from("two\n")), ("git".into(), Blob::from("a file named git\n")), ("rg".into(), Blob::from("a file named rg\n")), ("diff".into(), Blob::from("a file named diff\n"))];
                let outp = if st == 1 { diff.clone() } else { Vec::new() };
                let stderr = if st >= 2 { "error: Could not access 'x'\n" } else { "" };
                spec.child = Some(ChildSetup { names: vec!["git".into(), "diff".into()], stdout: outp.into(), stderr: stderr.into(), stderr_first: false, exit: st, git_version: gv.into(), linger_ms: 0 });
                spec.pager = Some(pg(0));
                out.push(Scenario { name: format!("cell-diff2-{}-{}-{}", oclass, gv.replace(' ', "_"), st), kind: "diff2".into(), sub: format!("ops-{}-status{}", oclass, st), spec, paging: "never".into(), expect_exit: st, tokens: if st == 1 { tokens.clone() } else { vec![] }, pager_model: None, stderr_may_be_nonempty: st >= 2, check_selection: false, light: true });
            }
        }
    }
    // D. delta A B with a differ that also writes warnings on stderr (CRLF conversion warnings, one or
    //    two per file): little, more than one pipe buffer, much more - before or after its stdout
    for st in [0i32, 1] {
        for (lclass, len) in [("line", 60usize), ("70k", 70_000), ("200k", 200_000)] {
            for stderr_first in [false, true] {
                let mut spec = RunSpec::default();
                spec.plan = Plan::basic(mix(seed, &[tag("cellhash3"), out.len() as u64]));
                spec.args = vec!["--paging".into(), "never".into(), "--no-gitconfig".into(), "--width".into(), "100".into(), "a.txt".into(), "b.txt".into()];
                spec.files = vec![("a.txt".into(), Blob::from("one\n")), ("b.txt".into(), Blob::from("two\n"))];
                let mut warn = String::new();
                let mut k = 0;
                while warn.len() < len {
                    warn.push_str(&format!("warning: in the working copy of 'dir/file{}.txt', CRLF will be replaced by LF the next time Git touches it\n", k));
                    k += 1;
                }
                let outp = if st == 1 { diff.clone() } else { Vec::new() };
                spec.child = Some(ChildSetup { names: vec!["git".into(), "diff".into()], stdout: outp.into(), stderr: warn.into(), stderr_first, exit: st, git_version: "git version 2.45.1".into(), linger_ms: 0 });
                spec.pager = Some(pg(0));
                out.push(Scenario { name: format!("cell-diff2-warnings-{}-{}-{}", st, lclass, stderr_first), kind: "diff2".into(), sub: format!("warnings-{}-status{}", lclass, st), spec, paging: "never".into(), expect_exit: st, tokens: if st == 1 { tokens.clone() } else { vec![] }, pager_model: None, stderr_may_be_nonempty: true, check_selection: false, light: true });
            }
        }
    }
    out
}

pub fn fixed_scenarios(seed: u64) -> Vec<Scenario> {
    // deterministic coverage floor: each one-shot flag once, stdin diff in each paging mode with default pager
    let mut v = Vec::new();
    for j in 0..4 {
        let mut s = gen_scenario_ext(seed, 3_000_000 + j, false, true);
        s.name = format!("fixed-bigstderr{}", j);
        v.push(s);
    }
    for (j, k) in ["wrapped", "diff2", "wrapped", "stdin"].iter().enumerate() {
        let mut s = gen_scenario_full(seed, 4_000_000 + j, false, false, Some(k));
        s.name = format!("huge-{}{}", k, j);
        s.sub = format!("{}-huge", s.sub);
        v.push(s);
    }
    // coverage floor, whatever the seed: every cell of
    //   kind x {paging off, paged} x {exit 0, exit 1, exit >= 2, killed by a signal}
    // that exists, every one-shot flag and every wrapped command, at least once
    let mut i = 2_000_000;
    let mut seen: BTreeSet<String> = BTreeSet::new();
    while i < 2_006_000 {
        let s = gen_scenario(seed, i, false);
        i += 1;
        let paged = if s.paging == "never" { "off" } else { "paged" };
        let exit_class = if s.sub.contains("killed") {
            "killed"
        } else {
            match s.expect_exit {
                0 => "0",
                1 => "1",
                _ => ">=2",
            }
        };
        let mut keys = vec![format!("cell:{}:{}:{}", s.kind, paged, exit_class)];
        if s.kind == "oneshot" {
            keys.push(format!("flag:{}", s.sub));
        }
        if s.kind == "wrapped" {
            keys.push(format!("cmd:{}:{}", s.sub.split("-stderr").next().unwrap().trim_end_matches("-killed"), paged));
        }
        let mut fresh = false;
        for k in keys {
            if seen.insert(k) {
                fresh = true;
            }
        }
        if fresh {
            let mut s = s;
            s.name = format!("fixed-{}-{}", s.kind, v.len());
            v.push(s);
        }
    }
    v
}

fn replay_file(env: &Env, path: &str) -> i32 {
    let text = match std::fs::read_to_string(path) {
        Ok(t) => t,
        Err(e) => {
            eprintln!("cannot read {}: {}", path, e);
            return 2;
        }
    };
    let v: serde_json::Value = serde_json::from_str(&text).unwrap();
    let s: Scenario = serde_json::from_value(v["scenario"].clone()).unwrap();
    let f: Fault = serde_json::from_value(v["fault"].clone()).unwrap();
    let oracle = v["oracle"].as_str().unwrap_or("");
    let ctx = Ctx { worker: 0, dir: env.scratch.join("w0"), stop: &std::sync::atomic::AtomicBool::new(false) };
    match reproduces(env, &ctx, &s, &f, oracle) {
        Some(vv) => {
            println!("VIOLATION property=C18 replay={}", path);
            println!("  oracle={} {}", vv.oracle, vv.message);
            1
        }
        None => {
            println!("replay {}: no violation of {} (property holds on this tree for this case)", path, oracle);
            0
        }
    }
}
