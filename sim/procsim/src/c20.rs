//! C20 on the real binary (engine E1): "a query never blocks forever" also depends on what
//! `main()` does before the protocol in utils/process.rs starts (E3 drives that protocol and the
//! call sites, but not `main()` itself).  These scenarios run the real binary with arguments that
//! *look like* the commands delta can launch (`rg`, `git`) in positions where they are not: file
//! operands, option values.  Oracle: delta terminates, exits with the expected status and renders
//! the whole input — under every hash seed and delivery schedule tried.
//! Thread interleavings are NOT controlled here (that is E3's job); a hang that does not depend on
//! the interleaving is found deterministically.

use crate::pool::{par_map, Ctx};
use crate::runner::*;
use serde::{Deserialize, Serialize};
use serde_json::json;
use simcore::evidence::Evidence;
use simcore::gen;
use simcore::report::*;
use simcore::rng::{mix, tag, Rng};
use simcore::text::{strip_ansi, tokens_in, Blob};
use std::time::Instant;

#[derive(Clone, Debug, Serialize, Deserialize)]
pub struct Case {
    pub name: String,
    pub spec: RunSpec,
    pub expect_exit: i32,
    pub tokens: Vec<u32>,
    /// cases with the same non-empty group differ only in how long the background scan takes (and in
    /// hash seed / delivery): what delta renders must be identical within the group
    #[serde(default)]
    pub group: String,
    /// the rendering must show that the calling process was recognised (an SGR sequence inside the
    /// first content line: syntax highlighting by the file name taken from `git show rev:file`)
    #[serde(default)]
    pub must_highlight: bool,
}

pub fn cases(seed: u64, n_random: usize) -> Vec<Case> {
    let mut out = Vec::new();
    let mut rng = Rng::new(mix(seed, &[tag("C20"), tag("e1")]));
    let gp = gen::GenParams { flavor: gen::Flavor::Git, sections: vec![gen::SectionKind::Modified], max_hunks: 1, pivot: 2, max_run: 3, with_commit_preamble: false, multibyte: false, no_newline_marker: false, similar_pairs: false, no_index_lines: false, no_prefix: false, line_number_class: 0, long_line_pct: 0, path_style: 0 };
    let lines = gen::generate(&mut rng, &gp);
    let diff = gen::to_bytes(&lines);
    let tokens: Vec<u32> = lines.iter().filter(|l| l.kind != gen::LineKind::HunkHeader).filter_map(|l| l.token.as_ref().map(|t| simcore::text::token_num(t))).collect();
    let words = ["rg", "git", "diff", "blame", "grep", "show", "log"];
    let base = |args: Vec<String>| -> RunSpec {
        let mut spec = RunSpec::default();
        spec.plan = Plan::basic(3);
        spec.args = args;
        spec.pager = Some(PagerSetup { names: vec!["less".into(), "rg-pager".into()], mode: "gate".into(), exit_code: 0, less_version: "less 581".into() });
        spec
    };
    // stdin mode with look-alike words as option VALUES
    for w in words {
        for opt in ["--file-modified-label", "--pager", "--hunk-label", "--file-added-label", "--syntax-theme-x"] {
            if opt == "--syntax-theme-x" {
                continue;
            }
            for paging in ["never", "always"] {
                // `--pager rg` with paging on would start the real rg as a pager: keep that off
                if opt == "--pager" && paging == "always" {
                    continue;
                }
                let mut spec = base(vec!["--no-gitconfig".into(), "--width".into(), "100".into(), "--paging".into(), paging.into(), opt.into(), w.into()]);
                spec.stdin = diff.clone().into();
                out.push(Case { name: format!("stdin {} {} paging={}", opt, w, paging), spec, expect_exit: 0, tokens: tokens.clone(), group: String::new(), must_highlight: false });
            }
        }
    }
    // two-file mode with operands NAMED like launchable commands (stub git prints the diff, status 1)
    for (a, b) in [("a.txt", "rg"), ("a.txt", "git"), ("notes", "grep"), ("a.txt", "b.txt")] {
        // NB: a FIRST operand called rg/git is, by design, a command to launch; only later positions are file names
        let mut spec = base(vec!["--no-gitconfig".into(), "--width".into(), "100".into(), "--paging".into(), "never".into(), a.into(), b.into()]);
        spec.files = vec![(a.into(), Blob::from("one\n")), (b.into(), Blob::from("two\n"))];
        spec.child = Some(ChildSetup { names: vec!["git".into(), "diff".into()], stdout: diff.clone().into(), stderr: Blob::default(), stderr_first: false, exit: 1, git_version: "git version 2.45.1".into(), linger_ms: 0 });
        out.push(Case { name: format!("two files {} {}", a, b), spec, expect_exit: 1, tokens: tokens.clone(), group: String::new(), must_highlight: false });
    }
    // delta as the child of `git show HEAD:file` / `git blame file` / `git grep`: the real scan of the
    // process table finds the producer; the scan is made to end before or long after the main
    // thread's first queries (0 ms / 900 ms), and the input arrives at once or line by line
    let show_input = "fn main() {\n    let x = \"T000900 str\";\n    // T000901\n}\n";
    for (gi, (parent, input, toks, hl)) in [
        (vec!["git", "show", "HEAD:src/sample.rs"], show_input.to_string(), vec![900u32, 901], true),
        (vec!["git", "blame", "src/sample.rs"], String::from_utf8_lossy(&gen::blame_input(&mut rng, 6)).to_string(), (0..6u32).collect::<Vec<_>>(), false),
        (vec!["git", "grep", "-n", "fn"], String::from_utf8_lossy(&gen::grep_input(&mut rng, 6)).to_string(), (0..6u32).collect::<Vec<_>>(), false),
    ]
    .into_iter()
    .enumerate()
    {
        for delay in [0i64, 1500] {
            for chunks in [vec![], vec![1i64, 64]] {
                let mut spec = base(vec!["--no-gitconfig".into(), "--width".into(), "100".into(), "--paging".into(), "never".into()]);
                spec.stdin = input.clone().into();
                spec.parent_cmdline = Some(parent.iter().map(|x| x.to_string()).collect());
                spec.plan.scan_delay_ms = delay;
                spec.plan.rchunks = chunks.clone();
                out.push(Case { name: format!("child of `{}`, scan takes {} ms, chunks {:?}", parent.join(" "), delay, chunks), spec, expect_exit: 0, tokens: toks.clone(), group: format!("piped-{}", gi), must_highlight: hl });
            }
        }
    }
    // faults in the scan itself: command lines that read as empty (zombie, kernel thread, a process
    // that exited between two reads) or reads that fail with ESRCH.  Whatever the scan meets, the
    // background thread must publish an answer: delta terminates and renders everything; when delta's
    // own parent stays readable (mode 2) the answer must be the same as without the fault.
    for mode in [1i64, 2, 3, 4] {
        for (gi, parent) in [None, Some(vec!["git", "show", "HEAD:src/sample.rs"])].into_iter().enumerate() {
            for delay in [0i64, 400] {
                let mut spec = base(vec!["--no-gitconfig".into(), "--width".into(), "100".into(), "--paging".into(), "never".into()]);
                spec.stdin = show_input.to_string().into();
                spec.parent_cmdline = parent.as_ref().map(|p| p.iter().map(|x| x.to_string()).collect());
                spec.plan.scan_delay_ms = delay;
                spec.plan.scan_cmdline = mode;
                let recognisable = mode == 2 && parent.is_some();
                // when the parent is hidden delta goes on to look at other processes, which in this
                // sandbox can be another worker's stand-in for git: no comparison in those modes
                let _ = gi;
                let group = if recognisable { "piped-0".to_string() } else { String::new() };
                out.push(Case { name: format!("scan fault {} ({}), scan takes {} ms", mode, parent.as_ref().map(|p| p.join(" ")).unwrap_or_else(|| "no recognisable parent".into()), delay), spec, expect_exit: 0, tokens: vec![900, 901], group, must_highlight: recognisable });
            }
        }
    }
    // the producer is not an ancestor of delta but a neighbour in the process table (`git show REV:file |
    // wrapper`, the wrapper starting delta): a pid namespace of our own makes the layout exact; between
    // the producer and delta the pid space has a hole or not, depending on whether a short-lived helper
    // has already exited - the answer must be the same
    let pidns_ok = std::process::Command::new("unshare").args(["-fp", "--mount-proc", "/bin/true"]).stdin(std::process::Stdio::null()).stdout(std::process::Stdio::null()).stderr(std::process::Stdio::null()).status().map(|s| s.success()).unwrap_or(false);
    if !pidns_ok {
        eprintln!("NOTE: pid namespaces are not available here (unshare -fp --mount-proc failed): the neighbour-producer cases are left out");
    }
    for variant in ["helper-alive", "helper-gone"] {
        if !pidns_ok {
            break;
        }
        for delay in [0i64, 700] {
            let mut spec = base(vec!["--no-gitconfig".into(), "--width".into(), "100".into(), "--paging".into(), "never".into()]);
            spec.stdin = show_input.to_string().into();
            spec.pidns = Some(variant.to_string());
            spec.plan.scan_delay_ms = delay;
            out.push(Case { name: format!("producer is a neighbour, not an ancestor (pid namespace, {}), scan takes {} ms", variant, delay), spec, expect_exit: 0, tokens: vec![900, 901], group: "pidns".to_string(), must_highlight: true });
        }
    }
    // delta launches a command whose output it does not parse as anything special (`delta git status`,
    // `delta git ls-files`, ...): nothing is published for such a command, and the lines still go
    // through handlers that ask for the calling process - the answer must come from somewhere
    for (cmd, delay) in [(vec!["git", "status"], 0i64), (vec!["git", "ls-files"], 0), (vec!["git", "stash", "list"], 600), (vec!["git", "branch", "-a"], 0), (vec!["git", "-c", "color.ui=always", "status", "--short"], 600)] {
        for paging in ["never", "always"] {
            let mut args: Vec<String> = vec!["--no-gitconfig".into(), "--width".into(), "100".into(), "--paging".into(), paging.into()];
            args.extend(cmd.iter().map(|x| x.to_string()));
            let mut spec = base(args);
            let text = "On branch T000900\nChanges not staged for commit:\n\tmodified:   src/T000901.rs\n\nno changes added to commit\nsrc/main.rs\n";
            spec.child = Some(ChildSetup { names: vec!["git".into(), "rg".into()], stdout: text.to_string().into(), stderr: simcore::text::Blob::default(), stderr_first: false, exit: 0, git_version: "git version 2.45.1".into(), linger_ms: 0 });
            spec.plan.scan_delay_ms = delay;
            out.push(Case { name: format!("launched command that is not parsed: {:?}, paging {}", cmd, paging), spec, expect_exit: 0, tokens: vec![900, 901], group: String::new(), must_highlight: false });
        }
    }
    // the main thread is done while the scan is still running (one-shot flags, empty input, an
    // error exit): it must leave, with the right status, whatever the scanning thread is doing
    for (args, exit) in [(vec!["--show-config"], 0), (vec!["--version"], 0), (vec!["--list-languages"], 0), (vec!["--no-gitconfig"], 0), (vec!["--no-gitconfig", "--width", "nonsense"], 2)] {
        for mode in [0i64, 1] {
            let mut spec = base(args.iter().map(|a| a.to_string()).collect());
            spec.args.push("--paging".into());
            spec.args.push("never".into());
            spec.plan.scan_delay_ms = 1500;
            spec.plan.scan_cmdline = mode;
            out.push(Case { name: format!("main thread finished while the scan runs: {:?}, scan fault {}", args, mode), spec, expect_exit: exit, tokens: vec![], group: String::new(), must_highlight: false });
        }
    }
    let n_fixed = out.len();
    // random delivery schedules / hash seeds on top
    let n0 = out.len();
    let _ = n_fixed;
    for i in 0..n_random {
        let mut c = out[i % n0].clone();
        if !c.group.is_empty() {
            continue; // the grouped cases compare outputs: keep their delivery as constructed
        }
        c.spec.plan.seed = rng.below(1_000_000);
        c.spec.plan.rchunks = vec![*rng.pick(&[1i64, 7, 64, 4096]), 0, *rng.pick(&[3i64, 100])];
        c.name = format!("{} (schedule {})", c.name, i);
        out.push(c);
    }
    out
}

pub fn check_case(env: &Env, ctx: &Ctx, c: &Case) -> Option<Violation> {
    check_case_out(env, ctx, c).0
}

static SCAN_FAULT_RUNS: std::sync::atomic::AtomicU64 = std::sync::atomic::AtomicU64::new(0);

pub fn check_case_out(env: &Env, ctx: &Ctx, c: &Case) -> (Option<Violation>, Vec<u8>) {
    match run(env, &c.spec, &ctx.dir.join("run"), false) {
        Ok(r) => {
            let mut got = r.stdout.clone();
            if let Some(p) = &r.pager_received {
                got.extend_from_slice(p);
            }
            // reach: the planned fault in the scan actually replaced at least one read
            if r.events.iter().any(|e| e.kind == "SCANFAULT" && e.get("fired") == Some("1")) {
                SCAN_FAULT_RUNS.fetch_add(1, std::sync::atomic::Ordering::Relaxed);
            }
            (check_result(c, &r), got)
        }
        // the run itself could not be carried out (spawn failure under load ...): no output to compare
        Err(_) => (None, RUN_FAILED.to_vec()),
    }
}

/// Stands for "this run could not be carried out" in the place of the rendered bytes.
const RUN_FAILED: &[u8] = b"\0<deltasim: run failed>\0";

fn check_result(c: &Case, r: &RunResult) -> Option<Violation> {
    if r.timed_out {
        return Some(Violation::new("T-terminates", "e1:hang", format!("`delta {}` did not terminate: blocked forever (case: {})", c.spec.args.join(" "), c.name)));
    }
    if r.exit_code != Some(c.expect_exit) {
        return Some(Violation::new("T-terminates", "e1:exit", format!("`delta {}` exited with {:?} (signal {:?}), expected {}: {}", c.spec.args.join(" "), r.exit_code, r.signal, c.expect_exit, String::from_utf8_lossy(&r.stderr).chars().take(200).collect::<String>())));
    }
    let mut got = r.stdout.clone();
    if let Some(p) = &r.pager_received {
        got.extend_from_slice(p);
    }
    let toks = tokens_in(&strip_ansi(&got));
    if let Some(m) = c.tokens.iter().find(|t| !toks.contains(t)) {
        return Some(Violation::new("T-terminates", "e1:not-rendered", format!("`delta {}`: input line with token T{:06} was never rendered", c.spec.args.join(" "), m)));
    }
    if c.must_highlight {
        // `fn main() {` rendered with syntax highlighting has an escape sequence between `fn` and `main`
        let text = String::from_utf8_lossy(&got).to_string();
        let first = text.lines().find(|l| l.contains("main")).unwrap_or("");
        let plain_fn_main = strip_ansi(first.as_bytes()) == first.as_bytes() || first.contains("fn main");
        if plain_fn_main {
            return Some(Violation::new("S-same-answer", "e1:caller-not-recognised", format!("[{}] the calling process `{}` was not used for the first line: it is rendered without the language of the file ({:?})", c.name, c.spec.parent_cmdline.clone().unwrap_or_default().join(" "), first)));
        }
    }
    None
}

pub fn main_c20(env: &Env, tier: &str, seed: u64, replay: Option<&str>) -> i32 {
    let t0 = Instant::now();
    let ctx0 = Ctx { worker: 0, dir: env.scratch.join("w0"), stop: &std::sync::atomic::AtomicBool::new(false) };
    if let Some(path) = replay {
        let v: serde_json::Value = match std::fs::read_to_string(path).ok().and_then(|t| serde_json::from_str(&t).ok()) {
            Some(v) => v,
            None => return 2,
        };
        let case: Case = serde_json::from_value(v["case"].clone()).unwrap();
        let mut verdict = check_case(env, &ctx0, &case);
        if verdict.is_none() && !v["reference_case"].is_null() {
            let refc: Case = serde_json::from_value(v["reference_case"].clone()).unwrap();
            let a = check_case_out(env, &ctx0, &case).1;
            let b = check_case_out(env, &ctx0, &refc).1;
            if a != b {
                verdict = Some(Violation::new("S-same-answer", "e1:rendering-depends-on-scan-timing", format!("[{}] renders differently from [{}]", case.name, refc.name)));
            }
        }
        return match verdict {
            Some(x) => {
                println!("VIOLATION property=C20 replay={}", path);
                println!("  oracle={} {}", x.oracle, x.message);
                1
            }
            None => {
                println!("replay {}: no violation (property holds on this tree for this case)", path);
                0
            }
        };
    }
    let cs = cases(seed, if tier == "thorough" { 2000 } else { 60 });
    let results_full = par_map(&env.scratch, &cs, &|ctx, _i, c: &Case| check_case_out(env, ctx, c));
    let mut results: Vec<Option<Option<Violation>>> = results_full.iter().map(|r| r.as_ref().map(|x| x.0.clone())).collect();
    // schedule independence on the real binary: within a group every rendering is the same
    let mut first_of_group: std::collections::BTreeMap<String, usize> = std::collections::BTreeMap::new();
    for (i, c) in cs.iter().enumerate() {
        if c.group.is_empty() {
            continue;
        }
        let out_i = results_full[i].as_ref().map(|x| x.1.clone()).unwrap_or_default();
        match first_of_group.get(&c.group) {
            None => {
                first_of_group.insert(c.group.clone(), i);
            }
            Some(&j) => {
                let out_j = results_full[j].as_ref().map(|x| x.1.clone()).unwrap_or_default();
                if out_i != out_j && out_i != RUN_FAILED && out_j != RUN_FAILED && !out_i.is_empty() && !out_j.is_empty() && results[i].as_ref().map(|x| x.is_none()).unwrap_or(true) {
                    if let Ok(dir) = std::env::var("DELTASIM_KEEP_MISMATCH") {
                        let _ = std::fs::write(format!("{}/mismatch-{}-a.bin", dir, i), &out_i);
                        let _ = std::fs::write(format!("{}/mismatch-{}-b.bin", dir, i), &out_j);
                    }
                    results[i] = Some(Some(Violation::new("S-same-answer", "e1:rendering-depends-on-scan-timing", format!("[{}] renders differently from [{}]: the answer about the calling process depended on when the background scan finished", c.name, cs[j].name))));
                }
            }
        }
    }
    let known = load_known();
    let mut exit = 0;
    let mut reported = 0;
    for (i, r) in results.iter().enumerate() {
        if let Some(Some(v)) = r {
            if let Some(k) = known.matches("C20", v) {
                println!("KNOWN-FINDING: property=C20 {} [{}]", k.what, k.signature);
                continue;
            }
            if reported >= 3 {
                continue;
            }
            // confirm by re-execution (group comparisons: re-run both members)
            if v.signature == "e1:rendering-depends-on-scan-timing" {
                // the real scan of the process table sees the whole sandbox: the difference has to
                // show in two more executions of both members before it is believed
                let j = first_of_group[&cs[i].group];
                let mut same = false;
                for _ in 0..2 {
                    let a = check_case_out(env, &ctx0, &cs[i]).1;
                    let b = check_case_out(env, &ctx0, &cs[j]).1;
                    if a == b {
                        same = true;
                        break;
                    }
                }
                if same {
                    eprintln!("NOTE: violation did not reproduce, not reported: {}", v.message);
                    continue;
                }
            } else if check_case(env, &ctx0, &cs[i]).is_none() {
                eprintln!("NOTE: violation did not reproduce, not reported: {}", v.message);
                continue;
            }
            reported += 1;
            let path = write_replay("C20", &format!("E1-{}-{}", v.oracle, reported), &json!({"property": "C20", "engine": "E1-proc", "seed": seed, "oracle": v.oracle, "signature": v.signature, "message": v.message, "case": cs[i], "reference_case": if cs[i].group.is_empty() { serde_json::Value::Null } else { json!(cs[first_of_group[&cs[i].group]]) }}));
            println!("VIOLATION property=C20 replay={}", path.display());
            println!("  oracle={} {}", v.oracle, v.message);
            exit = 1;
        }
    }
    let mut ev = Evidence::new("C20", tier, seed, "exploration");
    ev.evaluations = cs.len() as u64;
    ev.distinct_nontrivial = cs.len() as u64;
    ev.rule = "E1 part: one evaluation = one execution of the real binary (real main(), real background thread, real scan of the process table). (a) arguments that look like launchable commands (rg, git, ...) in positions where they are option values or file operands: termination with the expected status and complete rendering; (b) delta started as the child of a process whose command line is `git show HEAD:file` / `git blame file` / `git grep ..` (a copy of /bin/sh under the name git), with the background scan ending before or 900 ms after the first queries (real sleep injected by the shim at the scan's first read) and the input delivered at once or in small chunks: the rendering must be identical for every timing and must show that the caller was recognised; (c) the same with a fault in the scan itself: reads of /proc/<pid>/cmdline by the scanning thread return nothing (zombie, exited process) for every process / every process but delta's parent / only the parent, or fail with ESRCH: delta must terminate and render everything, and with a readable parent give the same rendering as without the fault. distinct_nontrivial = distinct (argument pattern, hash seed, delivery schedule) cases.".into();
    ev.counters.insert("fault_fired.scan_cmdline_empty_or_esrch_runs".into(), SCAN_FAULT_RUNS.load(std::sync::atomic::Ordering::Relaxed));
    ev.counters.insert("cases_child_of_git_with_scan_delay".into(), cs.iter().filter(|c| c.group.starts_with("piped-")).count() as u64);
    ev.counters.insert("cases_neighbour_producer_in_pid_namespace".into(), cs.iter().filter(|c| c.spec.pidns.is_some()).count() as u64);
    ev.counters.insert("cases_scan_fault".into(), cs.iter().filter(|c| c.spec.plan.scan_cmdline > 0).count() as u64);
    ev.violations = reported as u64;
    ev.samples = cs.iter().take(3).map(|c| json!({"name": c.name, "args": c.spec.args})).collect();
    ev.extra.insert("engine".into(), json!("E1-proc"));
    ev.assumptions = vec!["thread interleavings are not controlled in this part (E3 does that); it only finds blocking that does not depend on the interleaving".into()];
    ev.wall_s = t0.elapsed().as_secs_f64();
    let part = std::env::var("EVIDENCE_PART").unwrap_or_else(|_| format!("{}/evidence/C20.json", verif_root()));
    if ev.write(&part).is_err() {
        return 2;
    }
    println!("C20 {} (E1): {} runs of the real binary with look-alike arguments, {} violations, {:.1}s", tier, cs.len(), reported, ev.wall_s);
    exit
}
