mod c10;
mod c11;
mod c13;
mod c18;
mod pool;
mod report;
mod runner;

use runner::*;
use simcore::gen;
use simcore::rng::Rng;

fn main() {
    let args: Vec<String> = std::env::args().collect();
    let env = Env::from_env();
    match args.get(1).map(|s| s.as_str()) {
        Some("smoke") => smoke(&env),
        Some("C18-dump") => {
            for s in c18::fixed_scenarios(simcore::rng::verif_seed()) {
                println!("{} kind={} sub={} paging={} args={:?} stdin={} child_stdout={} child_stderr={}", s.name, s.kind, s.sub, s.paging, s.spec.args, s.spec.stdin.0.len(), s.spec.child.as_ref().map(|c| c.stdout.0.len()).unwrap_or(0), s.spec.child.as_ref().map(|c| c.stderr.0.len()).unwrap_or(0));
            }
        }
        Some("C10") | Some("C11") => {
            let tier = args.get(2).map(|s| s.as_str()).unwrap_or("quick");
            let replay = args.iter().position(|a| a == "--replay").and_then(|i| args.get(i + 1)).map(|s| s.as_str());
            let code = if args[1] == "C10" { c10::main_c10(&env, tier, simcore::rng::verif_seed(), replay) } else { c11::main_c11(&env, tier, simcore::rng::verif_seed(), replay) };
            env.cleanup();
            std::process::exit(code);
        }
        Some("C13") => {
            let tier = args.get(2).map(|s| s.as_str()).unwrap_or("quick");
            let replay = args.iter().position(|a| a == "--replay").and_then(|i| args.get(i + 1)).map(|s| s.as_str());
            let code = c13::main_c13(&env, tier, simcore::rng::verif_seed(), replay);
            env.cleanup();
            std::process::exit(code);
        }
        Some("C18") => {
            let tier = args.get(2).map(|s| s.as_str()).unwrap_or("quick");
            let replay = args.iter().position(|a| a == "--replay").and_then(|i| args.get(i + 1)).map(|s| s.as_str());
            let code = c18::main_c18(&env, tier, simcore::rng::verif_seed(), replay);
            env.cleanup();
            std::process::exit(code);
        }
        _ => {
            eprintln!("usage: deltasim-proc smoke");
            std::process::exit(2);
        }
    }
    env.cleanup();
}

fn smoke(env: &Env) {
    let mut rng = Rng::new(7);
    let p = gen::random_params(&mut rng, 2);
    let lines = gen::generate(&mut rng, &p);
    let input = gen::to_bytes(&lines);
    let mut spec = RunSpec::default();
    spec.args = vec!["--no-gitconfig".into(), "--width".into(), "120".into(), "--paging".into(), "always".into()];
    spec.stdin = input.into();
    spec.plan = Plan::basic(3);
    spec.plan.rchunks = vec![7, 0, 100];
    spec.pager = Some(PagerSetup { names: vec!["less".into()], mode: "gate".into(), exit_code: 0, less_version: "less 581".into() });
    let dir = env.scratch.join("smoke");
    let r = run(env, &spec, &dir, true).unwrap();
    println!("exit={:?} sig={:?} timeout={} ms={}", r.exit_code, r.signal, r.timed_out, r.wall_ms);
    println!("stderr={}", String::from_utf8_lossy(&r.stderr));
    println!("pager argv={:?} name={:?} env={:?}", r.pager_argv, r.pager_name, r.pager_env);
    println!("received={} stdout={}", r.pager_received.as_ref().map(|v| v.len()).unwrap_or(0), r.stdout.len());
    for e in r.events.iter() {
        println!("{} {} {:?}", e.who, e.kind, e.kv);
    }
}
