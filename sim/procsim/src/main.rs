mod c10;
mod c11;
mod c13;
mod c18;
mod c20;
mod pool;
mod report;
mod runner;

use runner::*;
use simcore::gen;
use simcore::rng::Rng;

fn main() {
    let args: Vec<String> = std::env::args().collect();
    let env = Env::from_env();
    match args.get(1).map(|s| s.as_str()) {
        Some("smoke") => smoke(&env),
        Some("selftest") => {
            let code = selftest(&env);
            env.cleanup();
            std::process::exit(code);
        }
        Some("C18-dump") => {
            for s in c18::fixed_scenarios(simcore::rng::verif_seed()) {
                println!("{} kind={} sub={} paging={} args={:?} stdin={} child_stdout={} child_stderr={}", s.name, s.kind, s.sub, s.paging, s.spec.args, s.spec.stdin.0.len(), s.spec.child.as_ref().map(|c| c.stdout.0.len()).unwrap_or(0), s.spec.child.as_ref().map(|c| c.stderr.0.len()).unwrap_or(0));
            }
        }
        Some("C10") | Some("C11") => {
            let tier = args.get(2).map(|s| s.as_str()).unwrap_or("quick");
            let replay = args.iter().position(|a| a == "--replay").and_then(|i| args.get(i + 1)).map(|s| s.as_str());
            let code = if args[1] == "C10" { c10::main_c10(&env, tier, simcore::rng::verif_seed(), replay) } else { c11::main_c11(&env, tier, simcore::rng::verif_seed(), replay) };
            env.cleanup();
            std::process::exit(code);
        }
        Some("C20") => {
            let tier = args.get(2).map(|s| s.as_str()).unwrap_or("quick");
            let replay = args.iter().position(|a| a == "--replay").and_then(|i| args.get(i + 1)).map(|s| s.as_str());
            let code = c20::main_c20(&env, tier, simcore::rng::verif_seed(), replay);
            env.cleanup();
            std::process::exit(code);
        }
        Some("C13") => {
            let tier = args.get(2).map(|s| s.as_str()).unwrap_or("quick");
            let replay = args.iter().position(|a| a == "--replay").and_then(|i| args.get(i + 1)).map(|s| s.as_str());
            let code = c13::main_c13(&env, tier, simcore::rng::verif_seed(), replay);
            env.cleanup();
            std::process::exit(code);
        }
        Some("C18") => {
            let tier = args.get(2).map(|s| s.as_str()).unwrap_or("quick");
            let replay = args.iter().position(|a| a == "--replay").and_then(|i| args.get(i + 1)).map(|s| s.as_str());
            let code = c18::main_c18(&env, tier, simcore::rng::verif_seed(), replay);
            env.cleanup();
            std::process::exit(code);
        }
        _ => {
            eprintln!("usage: deltasim-proc smoke");
            std::process::exit(2);
        }
    }
    env.cleanup();
}

fn smoke(env: &Env) {
    let mut rng = Rng::new(7);
    let p = gen::random_params(&mut rng, 2);
    let lines = gen::generate(&mut rng, &p);
    let input = gen::to_bytes(&lines);
    let mut spec = RunSpec::default();
    spec.args = vec!["--no-gitconfig".into(), "--width".into(), "120".into(), "--paging".into(), "always".into()];
    spec.stdin = input.into();
    spec.plan = Plan::basic(3);
    spec.plan.rchunks = vec![7, 0, 100];
    spec.pager = Some(PagerSetup { names: vec!["less".into()], mode: "gate".into(), exit_code: 0, less_version: "less 581".into() });
    let dir = env.scratch.join("smoke");
    let r = run(env, &spec, &dir, true).unwrap();
    println!("exit={:?} sig={:?} timeout={} ms={}", r.exit_code, r.signal, r.timed_out, r.wall_ms);
    println!("stderr={}", String::from_utf8_lossy(&r.stderr));
    println!("pager argv={:?} name={:?} env={:?}", r.pager_argv, r.pager_name, r.pager_env);
    println!("received={} stdout={}", r.pager_received.as_ref().map(|v| v.len()).unwrap_or(0), r.stdout.len());
    for e in r.events.iter() {
        println!("{} {} {:?}", e.who, e.kind, e.kv);
    }
}


/// Determinism self-test of engine E1: every (scenario, fault) pair executed twice, at two
/// different worker counts, must give the same event history (delta's own event subsequence with
/// pids removed, exit status, delivered bytes); plus a canary that the shim owns hash keys and clock.
fn selftest(env: &Env) -> i32 {
    use std::collections::BTreeSet;
    let seed = simcore::rng::verif_seed();
    let n: usize = std::env::var("SELFTEST_N").ok().and_then(|s| s.parse().ok()).unwrap_or(400);
    let mut tasks: Vec<(c18::Scenario, c18::Fault)> = Vec::new();
    for i in 0..n {
        let s = c18::gen_scenario(seed.wrapping_add(77), i, false);
        let mut rng = Rng::new(simcore::rng::mix(seed, &[simcore::rng::tag("selftest"), i as u64]));
        let f = match rng.below(4) {
            0 => c18::Fault::None,
            1 => c18::Fault::Epipe { k: rng.below(40) as i64 },
            2 => c18::Fault::Transparent { wplan: vec![-1, 0, 3, 1], rchunks: vec![5, 0, 64] },
            _ => c18::Fault::Sigint { at: "W".into(), stall: rng.chance(1, 2) },
        };
        tasks.push((s, f));
    }
    let pass = |jobs: &str| -> Vec<String> {
        std::env::set_var("VERIF_JOBS", jobs);
        pool::par_map(&env.scratch, &tasks, &|ctx, _i, t: &(c18::Scenario, c18::Fault)| {
            let spec = c18::apply(&t.0, &t.1);
            match run(env, &spec, &ctx.dir.join("run"), false) {
                Ok(r) => format!("{}|out={:016x}|pager={:016x}|err={:016x}", r.fingerprint(), simcore::rng::fnv64(&r.stdout), simcore::rng::fnv64(&r.pager_received.clone().unwrap_or_default()), simcore::rng::fnv64(&r.stderr.iter().copied().filter(|b| !b.is_ascii_digit()).collect::<Vec<u8>>())),
                Err(e) => format!("error {}", e),
            }
        })
        .into_iter()
        .map(|x| x.unwrap())
        .collect()
    };
    let a = pass("16");
    let b = pass("4");
    let c = pass("1x".trim_end_matches('x'));
    let mut bad = 0;
    for i in 0..tasks.len() {
        if a[i] != b[i] || a[i] != c[i] {
            bad += 1;
            if bad <= 3 {
                eprintln!("DIVERGENCE in task {} ({} / {:?}):\n--- run 1 ---\n{}\n--- run 2 ---\n{}\n--- run 3 ---\n{}", i, tasks[i].0.kind, tasks[i].1, a[i], b[i], c[i]);
            }
        }
    }
    std::env::remove_var("VERIF_JOBS");
    // canary
    let mut orders: BTreeSet<String> = BTreeSet::new();
    let mut canary_ok = true;
    if let Ok(canary) = std::env::var("CANARY_BIN") {
        let cenv = Env { delta_bin: canary.into(), shim: env.shim.clone(), stubs: env.stubs.clone(), scratch: env.scratch.clone(), timeout: env.timeout };
        for hs in 0..40u64 {
            let mut spec = RunSpec::default();
            spec.plan = Plan::basic(hs);
            let r1 = run(&cenv, &spec, &env.scratch.join("canary"), false).map(|r| String::from_utf8_lossy(&r.stdout).to_string()).unwrap_or_default();
            let r2 = run(&cenv, &spec, &env.scratch.join("canary"), false).map(|r| String::from_utf8_lossy(&r.stdout).to_string()).unwrap_or_default();
            if r1 != r2 || !r1.trim_end().ends_with(" 1700000000") {
                canary_ok = false;
                eprintln!("canary: seed {} gave {:?} then {:?}", hs, r1, r2);
            }
            orders.insert(r1);
        }
        if orders.len() < 10 {
            canary_ok = false;
        }
    }
    println!("selftest: {} (scenario, fault) pairs x 3 executions (16, 4, 1 workers): {} divergences; canary: {} distinct hash-map orders over 40 seeds, reproducible and clock pinned: {}", tasks.len(), bad, orders.len(), canary_ok);
    if bad == 0 && canary_ok {
        0
    } else {
        2
    }
}
