//! E1: one simulated execution of the real `delta` binary.
//!
//! The run directory is private (HOME, XDG, PATH, cwd, stubs, plan, event log,
//! gate FIFO).  The shim (LD_PRELOAD) applies the plan inside delta; stub peers
//! append their own records to the same event log and are gated by tokens the
//! shim writes when delta reaches a logged state.

use serde::{Deserialize, Serialize};
use simcore::text::Blob;
use std::collections::BTreeMap;
use std::fs;
use std::io::{Read, Write};
use std::os::unix::fs::symlink;
use std::os::unix::process::{CommandExt, ExitStatusExt};
use std::path::{Path, PathBuf};
use std::process::{Command, Stdio};
use std::time::{Duration, Instant};

#[derive(Clone, Debug, Default, Serialize, Deserialize, PartialEq)]
pub struct Plan {
    pub seed: u64,
    pub clock: i64,
    /// cyclic list of read(0) chunk sizes; 0 = EINTR; empty = unconstrained
    #[serde(default)]
    pub rchunks: Vec<i64>,
    /// cyclic per channel write call: -1 full, 0 EINTR, n short write of at most n bytes
    #[serde(default)]
    pub wplan: Vec<i64>,
    /// index (among channel write attempts) from which writes fail; -1 = never
    #[serde(default = "minus_one")]
    pub wfail_at: i64,
    #[serde(default = "epipe")]
    pub wfail_errno: i32,
    #[serde(default = "yes")]
    pub wfail_sticky: bool,
    /// "" | "w:<k>" | "r:<k>" | "W" (at first wait) | "B" (when a write would block)
    #[serde(default)]
    pub sigint: String,
    #[serde(default)]
    pub heap: bool,
    /// simulated producer pauses (ms) before the k-th read(0) is answered, cyclic; delta's
    /// monotonic and wall clocks advance by exactly these amounts
    #[serde(default)]
    pub rdelays_ms: Vec<i64>,
    /// the background scan of the process table takes this long (real sleep at its first read)
    #[serde(default)]
    pub scan_delay_ms: i64,
    /// fault in the background scan of the process table (see the shim): 0 none, 1 every command line
    /// reads as empty, 2 every one except delta's and its parent's, 3 only the parent's, 4 ESRCH
    #[serde(default)]
    pub scan_cmdline: i64,
}
fn minus_one() -> i64 {
    -1
}
fn epipe() -> i32 {
    32
}
fn yes() -> bool {
    true
}

impl Plan {
    pub fn basic(seed: u64) -> Plan {
        Plan { seed, clock: 1_700_000_000, rchunks: vec![], wplan: vec![], wfail_at: -1, wfail_errno: 32, wfail_sticky: true, sigint: String::new(), heap: false, rdelays_ms: vec![], scan_delay_ms: 0, scan_cmdline: 0 }
    }
}

#[derive(Clone, Debug, Default, Serialize, Deserialize, PartialEq)]
pub struct PagerSetup {
    /// names installed on PATH as pager stubs (e.g. "less", "mypager", "more", "most")
    pub names: Vec<String>,
    /// "nogate" | "gate" | "stall" | "quit:<n>"
    pub mode: String,
    pub exit_code: i32,
    /// what `less --version` prints (first line)
    pub less_version: String,
}

#[derive(Clone, Debug, Default, Serialize, Deserialize, PartialEq)]
pub struct ChildSetup {
    /// names installed on PATH: "git", "rg", "diff"
    pub names: Vec<String>,
    pub stdout: Blob,
    pub stderr: Blob,
    /// true: stderr is written before stdout
    pub stderr_first: bool,
    /// exit code, or 1000+signal to die by that signal
    pub exit: i32,
    pub git_version: String,
    /// after its output the command closes stdout and stderr and keeps running this long
    #[serde(default)]
    pub linger_ms: u32,
}

#[derive(Clone, Debug, Default, Serialize, Deserialize, PartialEq)]
pub struct RunSpec {
    pub args: Vec<String>,
    pub env: Vec<(String, String)>,
    pub gitconfig: Option<String>,
    pub stdin: Blob,
    /// extra files created in cwd before the run
    pub files: Vec<(String, Blob)>,
    pub plan: Plan,
    pub pager: Option<PagerSetup>,
    pub child: Option<ChildSetup>,
    /// stdout is a pipe whose reader closes after this many bytes (real EPIPE)
    pub stdout_quit_after: Option<usize>,
    /// delta is started as the child of a process whose command line is this (a copy of /bin/sh
    /// under that name, e.g. ["git", "show", "HEAD:src/x.rs"]): what `git show ... | delta` looks
    /// like to delta's scan of the process table
    #[serde(default)]
    pub parent_cmdline: Option<Vec<String>>,
    /// run delta in a pid namespace of its own (`unshare -fp --mount-proc`) with this arrangement of
    /// neighbours: pid 1 a shell (delta's parent), pid 2 a process whose command line is
    /// `git ... show HEAD:src/sample.rs` (the producer, NOT an ancestor of delta), pid 3 an unrelated
    /// sleeper, pid 4 a helper that is still alive ("helper-alive") or has already exited and left a
    /// hole in the pid space ("helper-gone"), pid 5 delta
    #[serde(default)]
    pub pidns: Option<String>,
}

#[derive(Clone, Debug, Default)]
pub struct Event {
    pub who: char, // 'D' delta, 'P' pager, 'G' wrapped child
    pub kind: String,
    pub kv: BTreeMap<String, String>,
}

impl Event {
    pub fn get(&self, k: &str) -> Option<&str> {
        self.kv.get(k).map(|s| s.as_str())
    }
    pub fn num(&self, k: &str) -> i64 {
        self.get(k).and_then(|s| s.parse().ok()).unwrap_or(-1)
    }
}

#[derive(Clone, Debug, Default)]
pub struct RunResult {
    pub exit_code: Option<i32>,
    pub signal: Option<i32>,
    pub timed_out: bool,
    pub stdout: Vec<u8>,
    pub stderr: Vec<u8>,
    pub events: Vec<Event>,
    pub pager_received: Option<Vec<u8>>,
    pub pager_argv: Option<Vec<String>>,
    pub pager_name: Option<String>,
    pub pager_env: Vec<String>,
    pub child_argv: Option<Vec<String>>,
    pub pager_finished: bool,
    pub wall_ms: u128,
}

impl RunResult {
    pub fn delta_events(&self) -> impl Iterator<Item = &Event> {
        self.events.iter().filter(|e| e.who == 'D')
    }
    pub fn find(&self, who: char, kind: &str) -> Option<usize> {
        self.events.iter().position(|e| e.who == who && e.kind == kind)
    }
    /// delta's own event subsequence with pids and hashes of nothing removed but pids: the
    /// deterministic fingerprint of a run.
    pub fn fingerprint(&self) -> String {
        let mut s = String::new();
        for e in self.delta_events() {
            if e.kind == "START" {
                continue;
            }
            s.push_str(&e.kind);
            for (k, v) in &e.kv {
                if k == "pid" || k == "heap" || k == "status" || (e.kind == "WAIT-RET" && k == "ret") || (e.kind == "E" && (k == "req" || k == "ret")) {
                    continue;
                }
                s.push(' ');
                s.push_str(k);
                s.push('=');
                s.push_str(v);
            }
            s.push('\n');
        }
        s.push_str(&format!("exit={:?} sig={:?}\n", self.exit_code, self.signal));
        s
    }
    pub fn channel_writes(&self) -> Vec<&Event> {
        self.delta_events().filter(|e| e.kind == "W").collect()
    }
}

pub struct Env {
    pub delta_bin: PathBuf,
    pub shim: PathBuf,
    pub stubs: PathBuf,
    pub scratch: PathBuf,
    pub timeout: Duration,
}

impl Env {
    pub fn from_env() -> Env {
        let verif = std::env::var("VERIF_ROOT").unwrap_or_else(|_| "/verif".into());
        let build = format!("{}/.build", verif);
        let scratch_root = std::env::var("VERIF_SCRATCH").unwrap_or_else(|_| {
            if Path::new("/dev/shm").is_dir() {
                "/dev/shm".into()
            } else {
                format!("{}/runs", build)
            }
        });
        // remove what earlier, interrupted runs left behind (directories named after a pid that is gone)
        if let Ok(rd) = fs::read_dir(&scratch_root) {
            for e in rd.flatten() {
                let name = e.file_name().to_string_lossy().to_string();
                if let Some(pid) = name.strip_prefix("deltasim.").or_else(|| name.strip_prefix("deltasim-sched.")) {
                    if pid.chars().all(|c| c.is_ascii_digit()) && !Path::new(&format!("/proc/{}", pid)).exists() {
                        let _ = fs::remove_dir_all(e.path());
                    }
                }
            }
        }
        let scratch = PathBuf::from(format!("{}/deltasim.{}", scratch_root, std::process::id()));
        Env {
            delta_bin: PathBuf::from(std::env::var("DELTA_BIN").unwrap_or_else(|_| format!("{}/target-e1/release/delta", build))),
            shim: PathBuf::from(format!("{}/libdeltasim.so", build)),
            stubs: PathBuf::from(format!("{}/stubs", verif)),
            scratch,
            timeout: Duration::from_secs(std::env::var("DELTASIM_TIMEOUT_S").ok().and_then(|s| s.parse().ok()).unwrap_or(30)),
        }
    }
    pub fn cleanup(&self) {
        if std::env::var_os("DELTASIM_KEEP").is_some() {
            eprintln!("DELTASIM_KEEP: run directories left in {}", self.scratch.display());
            return;
        }
        let _ = fs::remove_dir_all(&self.scratch);
    }
}

fn list_str(v: &[i64]) -> String {
    v.iter().map(|x| x.to_string()).collect::<Vec<_>>().join(" ")
}

pub fn parse_events(text: &str) -> Vec<Event> {
    let mut out = Vec::new();
    for line in text.lines() {
        let mut it = line.split(' ');
        let _seq = it.next();
        let who = match it.next() {
            Some(w) if !w.is_empty() => w.chars().next().unwrap(),
            _ => continue,
        };
        let kind = match it.next() {
            Some(k) => k.to_string(),
            None => continue,
        };
        let mut kv = BTreeMap::new();
        for f in it {
            if let Some((k, v)) = f.split_once('=') {
                kv.insert(k.to_string(), v.to_string());
            }
        }
        out.push(Event { who, kind, kv });
    }
    out
}

fn kill_group(pgid: i32) {
    unsafe {
        libc::kill(-pgid, libc::SIGKILL);
    }
}

/// Execute one run in `dir` (created fresh, removed afterwards unless `keep`).
pub fn run(env: &Env, spec: &RunSpec, dir: &Path, keep: bool) -> std::io::Result<RunResult> {
    let _ = fs::remove_dir_all(dir);
    fs::create_dir_all(dir.join("home"))?;
    fs::create_dir_all(dir.join("cwd"))?;
    fs::create_dir_all(dir.join("bin"))?;
    fs::create_dir_all(dir.join("xdg/config"))?;
    fs::create_dir_all(dir.join("xdg/data"))?;
    fs::create_dir_all(dir.join("xdg/cache"))?;
    let d = |s: &str| dir.join(s);
    if let Some(gc) = &spec.gitconfig {
        fs::write(d("home/.gitconfig"), gc)?;
    }
    for (name, data) in &spec.files {
        // relative to the working directory; "~/x" is below HOME, "xdg:/x" below XDG_CONFIG_HOME
        let p = if let Some(rest) = name.strip_prefix("~/") {
            d("home").join(rest)
        } else if let Some(rest) = name.strip_prefix("xdg:/") {
            d("xdg/config").join(rest)
        } else {
            d("cwd").join(name)
        };
        if let Some(parent) = p.parent() {
            fs::create_dir_all(parent)?;
        }
        fs::write(p, &data.0)?;
    }
    fs::write(d("stdin"), &spec.stdin.0)?;
    fs::write(d("events.log"), b"")?;
    // gate FIFO, held open read-write by the driver for the whole run so tokens are never lost
    let gate = d("gate");
    let cgate = std::ffi::CString::new(gate.to_str().unwrap()).unwrap();
    if unsafe { libc::mkfifo(cgate.as_ptr(), 0o600) } != 0 {
        return Err(std::io::Error::last_os_error());
    }
    let mut gate_hold = fs::OpenOptions::new().read(true).write(true).open(&gate)?;

    // plan
    let p = &spec.plan;
    let mut plan = String::new();
    plan.push_str(&format!("log {}\n", d("events.log").display()));
    plan.push_str(&format!("gate {}\n", gate.display()));
    plan.push_str(&format!("seed {}\n", p.seed));
    plan.push_str(&format!("clock {}\n", p.clock));
    if !p.rchunks.is_empty() {
        plan.push_str(&format!("rchunks {}\n", list_str(&p.rchunks)));
    }
    if !p.wplan.is_empty() {
        plan.push_str(&format!("wplan {}\n", list_str(&p.wplan)));
    }
    plan.push_str(&format!("wfail_at {}\n", p.wfail_at));
    plan.push_str(&format!("wfail_errno {}\n", p.wfail_errno));
    plan.push_str(&format!("wfail_sticky {}\n", if p.wfail_sticky { 1 } else { 0 }));
    if !p.sigint.is_empty() {
        plan.push_str(&format!("sigint {}\n", p.sigint));
    }
    if p.heap {
        plan.push_str("heap 1\n");
    }
    if !p.rdelays_ms.is_empty() {
        plan.push_str(&format!("rdelays_ms {}\n", list_str(&p.rdelays_ms)));
    }
    if p.scan_cmdline > 0 {
        plan.push_str(&format!("scan_cmdline {}\n", p.scan_cmdline));
    }
    if p.scan_delay_ms > 0 {
        plan.push_str(&format!("scan_delay_ms {}\n", p.scan_delay_ms));
    }
    fs::write(d("plan"), plan)?;

    // stubs
    if let Some(pg) = &spec.pager {
        for n in &pg.names {
            symlink(env.stubs.join("pager.sh"), d("bin").join(n))?;
        }
        fs::write(d("pager.mode"), &pg.mode)?;
        fs::write(d("pager.exit"), pg.exit_code.to_string())?;
        fs::write(d("less_version"), format!("{}\n", pg.less_version))?;
    }
    if let Some(ch) = &spec.child {
        for n in &ch.names {
            symlink(env.stubs.join("child.sh"), d("bin").join(n))?;
        }
        fs::write(d("child.stdout"), &ch.stdout.0)?;
        fs::write(d("child.stderr"), &ch.stderr.0)?;
        fs::write(d("child.order"), if ch.stderr_first { "stderr_first" } else { "stdout_first" })?;
        fs::write(d("child.exit"), ch.exit.to_string())?;
        fs::write(d("child.linger"), ch.linger_ms.to_string())?;
        fs::write(d("git_version"), format!("{}\n", ch.git_version))?;
    }

    // "@BIN@" in arguments, environment values and gitconfig stands for the run's private bin directory
    let bin_dir = d("bin").display().to_string();
    let subst = |x: &str| x.replace("@BIN@", &bin_dir);
    if let Some(gc) = &spec.gitconfig {
        if gc.contains("@BIN@") {
            fs::write(d("home/.gitconfig"), subst(gc))?;
        }
    }
    let mut cmd = match &spec.parent_cmdline {
        None if spec.pidns.is_some() => {
            fs::create_dir_all(d("parent"))?;
            let git = d("parent").join("git");
            std::os::unix::fs::symlink("/bin/sh", &git)?;
            let quote = |a: &str| format!("'{}'", a.replace('\'', "'\\''"));
            let mut delta_cmd = quote(&env.delta_bin.display().to_string());
            for a in &spec.args {
                delta_cmd.push(' ');
                delta_cmd.push_str(&quote(&subst(a)));
            }
            let helper = if spec.pidns.as_deref() == Some("helper-gone") { "/bin/true" } else { "sleep 5 >/dev/null 2>&1 &" };
            let script = format!(
                "{git} -c 'sleep 5; exit 0' show HEAD:src/sample.rs >/dev/null 2>&1 </dev/null &\nsleep 5 >/dev/null 2>&1 </dev/null &\n{helper}\n{delta}\nst=$?\nkill %1 %2 %3 2>/dev/null\nexit $st\n",
                git = quote(&git.display().to_string()),
                helper = helper,
                delta = delta_cmd
            );
            fs::write(d("cmd.sh"), script)?;
            let mut c = Command::new("unshare");
            c.args(["-fp", "--mount-proc", "/bin/sh"]).arg(d("cmd.sh"));
            c
        }
        None => {
            let mut c = Command::new(&env.delta_bin);
            c.args(spec.args.iter().map(|a| subst(a)));
            c
        }
        Some(pc) => {
            // <run>/parent/<name> is a copy of /bin/sh; it sources a script that runs delta (not exec:
            // the shell must stay delta's parent) and ends with delta's status
            fs::create_dir_all(d("parent"))?;
            let prog = d("parent").join(&pc[0]);
            // a symbolic link, not a copy: a freshly written executable can be "text file busy" when another
            // worker thread forks while the copy is still open for writing
            std::os::unix::fs::symlink("/bin/sh", &prog)?;
            let quote = |a: &str| format!("'{}'", a.replace('\'', "'\\''"));
            let mut script = format!("{}", quote(&env.delta_bin.display().to_string()));
            for a in &spec.args {
                script.push(' ');
                script.push_str(&quote(&subst(a)));
            }
            script.push_str("\nexit $?\n");
            fs::write(d("cmd.sh"), script)?;
            let mut c = Command::new(&prog);
            c.arg("-c").arg(format!(". {}", d("cmd.sh").display()));
            c.args(&pc[1..]);
            c
        }
    };
    cmd.env_clear();
    cmd.env("PATH", format!("{}:/usr/bin:/bin", d("bin").display()));
    cmd.env("HOME", d("home"));
    cmd.env("XDG_CONFIG_HOME", d("xdg/config"));
    cmd.env("XDG_DATA_HOME", d("xdg/data"));
    cmd.env("XDG_CACHE_HOME", d("xdg/cache"));
    cmd.env("TZ", "UTC");
    cmd.env("LC_ALL", "C.UTF-8");
    cmd.env("TERM", "xterm-256color");
    cmd.env("GIT_CONFIG_NOSYSTEM", "1");
    cmd.env("LD_PRELOAD", &env.shim);
    cmd.env("DELTASIM_PLAN", d("plan"));
    cmd.env("DELTASIM_RUN", dir);
    for (k, v) in &spec.env {
        cmd.env(k, subst(v));
    }
    cmd.current_dir(d("cwd"));
    cmd.stdin(Stdio::from(fs::File::open(d("stdin"))?));
    cmd.stderr(Stdio::from(fs::File::create(d("stderr"))?));
    let piped = spec.stdout_quit_after.is_some();
    if piped {
        cmd.stdout(Stdio::piped());
    } else {
        cmd.stdout(Stdio::from(fs::File::create(d("stdout"))?));
    }
    cmd.process_group(0);
    let t0 = Instant::now();
    // delta starts with the default dispositions and an empty signal mask, whatever the harness itself
    // inherited: a shell starts background jobs with SIGINT and SIGQUIT ignored, ignored signals stay
    // ignored across exec, and the injected SIGINT would then be no fault at all
    unsafe {
        cmd.pre_exec(|| {
            for sig in [libc::SIGINT, libc::SIGQUIT, libc::SIGPIPE, libc::SIGTERM, libc::SIGHUP] {
                libc::signal(sig, libc::SIG_DFL);
            }
            let mut set: libc::sigset_t = std::mem::zeroed();
            libc::sigemptyset(&mut set);
            libc::sigprocmask(libc::SIG_SETMASK, &set, std::ptr::null_mut());
            Ok(())
        });
    }
    let mut child = cmd.spawn()?;
    let pgid = child.id() as i32;

    let mut piped_out = Vec::new();
    if let Some(n) = spec.stdout_quit_after {
        // the consumer reads exactly n bytes and then goes away
        let mut so = child.stdout.take().unwrap();
        let mut buf = vec![0u8; n.max(1)];
        let mut got = 0;
        while got < n {
            match so.read(&mut buf[got..n]) {
                Ok(0) => break,
                Ok(k) => got += k,
                Err(_) => break,
            }
        }
        piped_out.extend_from_slice(&buf[..got]);
        drop(so);
    }

    let mut timed_out = false;
    let status = loop {
        match child.try_wait()? {
            Some(st) => break Some(st),
            None => {
                if t0.elapsed() > env.timeout {
                    timed_out = true;
                    kill_group(pgid);
                    let _ = child.wait();
                    break None;
                }
                std::thread::sleep(Duration::from_micros(300));
            }
        }
    };
    // delta is gone: release anything still gated, then give an orphaned pager a bounded time to finish
    let _ = gate_hold.write_all(b"EXIT\nEXIT\nEXIT\n");
    let mut pager_finished = true;
    let log_has = |needle: &str| -> bool { fs::read_to_string(d("events.log")).map(|s| s.contains(needle)).unwrap_or(false) };
    if spec.pager.is_some() && !timed_out {
        // The stub appends "P START" first thing and "P EXIT" last thing.  If delta spawned a
        // pager at all, the shim logged "D SPAWN".
        let spawned_pager = fs::read_to_string(d("events.log")).map(|s| s.lines().any(|l| l.contains(" D SPAWN ") && l.contains(" ret=0 ") && !l.contains("probe=1") && l.contains("role=pager"))).unwrap_or(false);
        if spawned_pager || log_has(" P START") {
            let t1 = Instant::now();
            while !log_has(" P EXIT") && !log_has(" P QUIT") {
                if t1.elapsed() > Duration::from_secs(10) {
                    pager_finished = false;
                    break;
                }
                std::thread::sleep(Duration::from_micros(500));
            }
        }
    }
    kill_group(pgid);
    drop(gate_hold);

    let mut res = RunResult { timed_out, pager_finished, ..Default::default() };
    if let Some(st) = status {
        res.exit_code = st.code();
        res.signal = st.signal();
    }
    res.stdout = if piped { piped_out } else { fs::read(d("stdout")).unwrap_or_default() };
    res.stderr = fs::read(d("stderr")).unwrap_or_default();
    res.events = parse_events(&String::from_utf8_lossy(&fs::read(d("events.log")).unwrap_or_default()));
    if spec.pager.is_some() {
        res.pager_received = fs::read(d("pager.received")).ok();
        if let Ok(s) = fs::read_to_string(d("pager.argv")) {
            let mut argv = Vec::new();
            for l in s.lines() {
                if let Some(n) = l.strip_prefix("name=") {
                    res.pager_name = Some(n.to_string());
                } else if let Some(a) = l.strip_prefix("arg=") {
                    argv.push(a.to_string());
                }
            }
            res.pager_argv = Some(argv);
        }
        if let Ok(s) = fs::read_to_string(d("pager.env")) {
            res.pager_env = s.lines().map(|l| l.to_string()).collect();
        }
    }
    if spec.child.is_some() {
        if let Ok(s) = fs::read_to_string(d("child.argv")) {
            res.child_argv = Some(s.lines().map(|l| l.to_string()).collect());
        }
    }
    res.wall_ms = t0.elapsed().as_millis();
    if let Ok(ms) = std::env::var("DELTASIM_SLOW_MS") {
        if res.wall_ms > ms.parse().unwrap_or(1000) {
            eprintln!("SLOW {}ms args={:?} pager={:?} plan={:?} timed_out={} pager_finished={}", res.wall_ms, spec.args, spec.pager.as_ref().map(|p| p.mode.clone()), spec.plan, timed_out, res.pager_finished);
        }
    }
    if !keep && std::env::var_os("DELTASIM_KEEP").is_none() {
        let _ = fs::remove_dir_all(dir);
    }
    Ok(res)
}
