pub use simcore::report::*;
