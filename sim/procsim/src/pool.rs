//! Parallel map with per-worker scratch directories.  Results come back in
//! task order, so nothing observable depends on the worker count.

use std::path::PathBuf;
use std::sync::atomic::{AtomicBool, AtomicUsize, Ordering};
use std::sync::Mutex;

pub fn workers() -> usize {
    std::env::var("VERIF_JOBS").ok().and_then(|s| s.parse().ok()).unwrap_or_else(|| std::thread::available_parallelism().map(|n| n.get()).unwrap_or(4))
}

pub struct Ctx<'a> {
    pub worker: usize,
    pub dir: PathBuf,
    pub stop: &'a AtomicBool,
}

pub fn par_map<T: Sync, R: Send>(scratch: &std::path::Path, tasks: &[T], f: &(dyn Fn(&Ctx, usize, &T) -> R + Sync)) -> Vec<Option<R>> {
    let n = workers().min(tasks.len().max(1));
    let next = AtomicUsize::new(0);
    let stop = AtomicBool::new(false);
    let results: Mutex<Vec<Option<R>>> = Mutex::new((0..tasks.len()).map(|_| None).collect());
    std::thread::scope(|s| {
        for w in 0..n {
            let next = &next;
            let stop = &stop;
            let results = &results;
            let dir = scratch.join(format!("w{}", w));
            s.spawn(move || {
                let ctx = Ctx { worker: w, dir, stop };
                loop {
                    if stop.load(Ordering::Relaxed) {
                        break;
                    }
                    let i = next.fetch_add(1, Ordering::Relaxed);
                    if i >= tasks.len() {
                        break;
                    }
                    let r = f(&ctx, i, &tasks[i]);
                    results.lock().unwrap()[i] = Some(r);
                }
            });
        }
    });
    results.into_inner().unwrap()
}
