//! C13 — option values resolve by the documented precedence, deterministically (engine E1).
//!
//! System: `delta ... --show-config` (real binary) with a generated gitconfig, arguments and
//! environment in a hermetic HOME.  Nondeterminism searched: the hash seed (`getrandom` stream owned
//! by the shim).  The reference model, the placement generator and the encoders live in
//! simcore::c13m (shared with the in-process engine).

use crate::pool::{par_map, Ctx};
use crate::report::*;
use crate::runner::*;
use serde_json::json;
use simcore::c13m::*;
use simcore::evidence::Evidence;
use simcore::rng::{mix, tag};
use simcore::text::Blob;
use std::collections::{BTreeMap, BTreeSet};
use std::time::Instant;

pub fn to_spec(p: &Placement, hash_seed: u64) -> RunSpec {
    let mut spec = RunSpec::default();
    spec.plan = Plan::basic(hash_seed);
    let e = encode(p, if p.via_config_flag { Some("gc.conf") } else { None });
    if p.via_config_flag {
        spec.files.push(("gc.conf".into(), Blob::from(e.gitconfig.clone())));
    } else {
        // which file(s) the settings live in must not matter (and --no-gitconfig cuts every one of
        // them): the global file, the XDG file, a file pulled in by include.path, the repository's
        // own config, or custom sections globally and the main section in the repository
        let repo_skeleton = |spec: &mut RunSpec, text: String| {
            spec.files.push((".git/HEAD".into(), Blob::from("ref: refs/heads/main\n".to_string())));
            spec.files.push((".git/objects/.keep".into(), Blob::default()));
            spec.files.push((".git/refs/heads/.keep".into(), Blob::default()));
            spec.files.push((".git/config".into(), Blob::from(format!("[core]\n\trepositoryformatversion = 0\n\tbare = false\n{}", text))));
        };
        match gitconfig_location(p) {
            "xdg" => spec.files.push(("xdg:/git/config".into(), Blob::from(e.gitconfig.clone()))),
            "included" => {
                spec.gitconfig = Some("[include]\n\tpath = delta-settings.inc\n[core]\n\tpager = cat\n".to_string());
                spec.files.push(("~/delta-settings.inc".into(), Blob::from(e.gitconfig.clone())));
            }
            "repo" => repo_skeleton(&mut spec, e.gitconfig.clone()),
            "split" => {
                let mut custom = String::new();
                if p.git_colors {
                    custom.push_str(GIT_COLORS_TEXT);
                }
                for (n, s) in &p.custom {
                    custom.push_str(&section_text(Some(n), &p.probe, s));
                }
                spec.gitconfig = Some(custom);
                let main_empty = p.main.value.is_none() && p.main.features.is_none() && p.main.flags.is_empty();
                repo_skeleton(&mut spec, if main_empty { String::new() } else { section_text(None, &p.probe, &p.main) });
            }
            _ => spec.gitconfig = Some(e.gitconfig.clone()),
        }
    }
    spec.args = e.args;
    spec.env = e.env;
    spec
}

/// A function of the placement (replay files carry the placement only).
pub fn gitconfig_location(p: &Placement) -> &'static str {
    if p.via_config_flag {
        return "--config";
    }
    let h = simcore::rng::fnv64(format!("{}|{:?}|{}", p.probe, p.sources, p.custom.len()).as_bytes());
    ["home", "home", "xdg", "included", "repo", "split"][(h % 6) as usize]
}

// ---------------------------------------------------------------------------

#[derive(Clone, Debug)]
pub struct Obs {
    pub stdout_hash: u64,
    pub shown: Option<String>,
    pub exit: Option<i32>,
    pub stderr: String,
}

fn observe(env: &Env, ctx: &Ctx, p: &Placement, hash_seed: u64) -> Option<Obs> {
    let spec = to_spec(p, hash_seed);
    match run(env, &spec, &ctx.dir.join("run"), false) {
        Ok(r) => Some(Obs { stdout_hash: simcore::rng::fnv64(&r.stdout), shown: shown_value(&r.stdout, &p.probe), exit: r.exit_code, stderr: String::from_utf8_lossy(&r.stderr).chars().take(300).collect() }),
        Err(e) => {
            eprintln!("HARNESS-ERROR: {}", e);
            None
        }
    }
}

pub fn check_placement(env: &Env, ctx: &Ctx, p: &Placement, defaults: &BTreeMap<String, String>, table: &BuiltinTable, hash_seeds: &[u64]) -> (Vec<Violation>, Vec<Obs>) {
    let probe = PROBES.iter().find(|x| x.name == p.probe).unwrap();
    let mut out = Vec::new();
    let mut obs = Vec::new();
    for hs in hash_seeds {
        if let Some(o) = observe(env, ctx, p, *hs) {
            obs.push(o);
        }
    }
    if obs.is_empty() {
        return (out, obs);
    }
    let default = defaults.get(&default_key(p)).cloned().unwrap_or_default();
    let acc = acceptable(p, probe, &default, table);
    let o0 = &obs[0];
    if o0.exit != Some(0) {
        out.push(Violation::new("P0-runs", &format!("{}:exit", p.probe), format!("--show-config exited with {:?}: {}", o0.exit, o0.stderr)));
        return (out, obs);
    }
    match &o0.shown {
        None => out.push(Violation::new("P0-shown", &format!("{}:not-shown", p.probe), format!("option {} not found in --show-config output", p.probe))),
        Some(v) => {
            let numeric_match = probe.ty == PType::Float && v.parse::<f64>().ok().map(|x| acc.iter().any(|a| a.parse::<f64>().ok() == Some(x))).unwrap_or(false);
            if !acc.contains(v) && !numeric_match {
                let winner_kinds = p.sources.join("+");
                out.push(Violation::new(
                    "P1-precedence",
                    &format!("{}:{}", p.probe, winner_kinds),
                    format!("{} resolved to {:?}; the documented precedence gives {:?} (sources: {})", p.probe, v, acc, winner_kinds),
                ));
            }
        }
    }
    for (i, o) in obs.iter().enumerate().skip(1) {
        if o.stdout_hash != o0.stdout_hash || o.exit != o0.exit {
            out.push(Violation::new(
                "P2-deterministic",
                &format!("{}:hash-seed", p.probe),
                format!("same sources, different result under hash seeds {} and {}: {} = {:?} vs {:?}", hash_seeds[0], hash_seeds[i], p.probe, o0.shown, o.shown),
            ));
            break;
        }
    }
    (out, obs)
}

fn calibrate_builtins(env: &Env, ctx: &Ctx, defaults: &BTreeMap<String, String>) -> BuiltinTable {
    let mut t = BuiltinTable::new();
    for probe in PROBES {
        for b in BUILTINS {
            // what a builtin feature sets is data: read it from the binary.  A lower-priority custom
            // feature sets the option to a marker value; if the marker shows, the builtin does not set
            // the option at all (a builtin may also set an option to what happens to be its default);
            // two markers, because a builtin may set the option to the marker's own value
            let (m1, m2) = calibration_markers(probe);
            for colors in [false, true] {
                if colors && !reads_git_colors(probe.name) {
                    continue;
                }
                let mut shown: Vec<Option<String>> = Vec::new();
                for m in [&m1, &m2] {
                    let mut p = Placement::default();
                    p.probe = probe.name.to_string();
                    p.custom.insert("fz".into(), Section { value: Some(m.clone()), ..Default::default() });
                    p.cli_features = Some(vec!["fz".to_string(), b.to_string()]);
                    p.git_colors = colors;
                    shown.push(observe(env, ctx, &p, 1).and_then(|o| o.shown));
                }
                let quoted = |m: &str, v: &str| v == m || v == format!("'{}'", m);
                if let (Some(v1), Some(v2)) = (&shown[0], &shown[1]) {
                    if !(quoted(&m1, v1) && quoted(&m2, v2)) {
                        t.insert((probe.name.to_string(), if colors { format!("{}+git-colors", b) } else { b.to_string() }), v1.clone());
                    }
                }
            }
        }
        // cross-check with the transcribed table (a note, never a verdict)
        for (b, v) in probe.builtin {
            if v.is_empty() {
                continue;
            }
            if t.get(&(probe.name.to_string(), b.to_string())).map(|x| x.as_str()) != Some(*v) {
                eprintln!("NOTE: builtin feature {} gives {} = {:?} on this tree (transcribed from the sources: {:?})", b, probe.name, t.get(&(probe.name.to_string(), b.to_string())), v);
            }
        }
    }
    t
}

fn calibrate_defaults(env: &Env, ctx: &Ctx) -> BTreeMap<String, String> {
    let mut m = BTreeMap::new();
    for probe in PROBES {
        let mut p = Placement::default();
        p.probe = probe.name.to_string();
        p.no_gitconfig = true;
        for extra in extra_cli_variants(probe.name) {
            let mut q = p.clone();
            q.extra_cli = extra;
            if let Some(o) = observe(env, ctx, &q, 1) {
                if let Some(v) = o.shown {
                    m.insert(default_key(&q), v);
                }
            }
        }
    }
    m
}

fn replay_json(p: &Placement, v: &Violation, hash_seeds: &[u64], seed: u64) -> serde_json::Value {
    let spec = to_spec(p, hash_seeds[0]);
    json!({"property": "C13", "engine": "E1-proc", "seed": seed, "oracle": v.oracle, "signature": v.signature, "message": v.message, "placement": p, "hash_seeds": hash_seeds,
        "command": {"args": spec.args, "env": spec.env, "gitconfig": gitconfig_text(p)}})
}

fn minimise(env: &Env, ctx: &Ctx, p: &Placement, defaults: &BTreeMap<String, String>, table: &BuiltinTable, hash_seeds: &[u64], oracle: &str) -> Placement {
    let mut best = p.clone();
    let still = |c: &Placement| -> bool { check_placement(env, ctx, c, defaults, table, hash_seeds).0.iter().any(|v| v.oracle == oracle) };
    let mut budget = 40;
    loop {
        let mut changed = false;
        let mut cands: Vec<Placement> = Vec::new();
        macro_rules! cand {
            ($e:expr) => {{
                let mut c = best.clone();
                #[allow(clippy::redundant_closure_call)]
                ($e)(&mut c);
                if c != best {
                    cands.push(c);
                }
            }};
        }
        cand!(|c: &mut Placement| c.cli_value = None);
        cand!(|c: &mut Placement| c.envparam_value = None);
        cand!(|c: &mut Placement| c.main.value = None);
        cand!(|c: &mut Placement| c.main.features = None);
        cand!(|c: &mut Placement| c.main.flags.clear());
        cand!(|c: &mut Placement| c.envparam_flags.clear());
        cand!(|c: &mut Placement| c.envparam_features = None);
        cand!(|c: &mut Placement| c.cli_features = None);
        cand!(|c: &mut Placement| c.env_features = None);
        cand!(|c: &mut Placement| c.cli_flags.clear());
        cand!(|c: &mut Placement| c.via_config_flag = false);
        for name in best.custom.keys().cloned().collect::<Vec<_>>() {
            let n2 = name.clone();
            cand!(|c: &mut Placement| {
                c.custom.remove(&n2);
            });
        }
        for c in cands {
            if budget == 0 {
                break;
            }
            budget -= 1;
            if still(&c) {
                best = c;
                changed = true;
                break;
            }
        }
        if !changed || budget == 0 {
            break;
        }
    }
    best
}

pub fn main_c13(env: &Env, tier: &str, seed: u64, replay: Option<&str>) -> i32 {
    let t0 = Instant::now();
    let ctx0 = Ctx { worker: 0, dir: env.scratch.join("w0"), stop: &std::sync::atomic::AtomicBool::new(false) };
    let defaults = calibrate_defaults(env, &ctx0);
    if defaults.len() < PROBES.len() {
        eprintln!("HARNESS-ERROR: could not read defaults for all probe options: {:?}", defaults);
        return 2;
    }
    let table = calibrate_builtins(env, &ctx0, &defaults);
    if let Some(path) = replay {
        let text = std::fs::read_to_string(path).unwrap_or_default();
        let v: serde_json::Value = match serde_json::from_str(&text) {
            Ok(v) => v,
            Err(e) => {
                eprintln!("cannot parse {}: {}", path, e);
                return 2;
            }
        };
        let p: Placement = serde_json::from_value(v["placement"].clone()).unwrap();
        let hs: Vec<u64> = serde_json::from_value(v["hash_seeds"].clone()).unwrap();
        let oracle = v["oracle"].as_str().unwrap_or("");
        let (vs, _) = check_placement(env, &ctx0, &p, &defaults, &table, &hs);
        return match vs.iter().find(|x| x.oracle == oracle) {
            Some(x) => {
                println!("VIOLATION property=C13 replay={}", path);
                println!("  oracle={} {}", x.oracle, x.message);
                1
            }
            None => {
                println!("replay {}: no violation of {}", path, oracle);
                0
            }
        };
    }
    let (n_random, n_hash) = if tier == "thorough" { (30000, 6) } else { (1500, 2) };
    let mut placements = lattice(seed, tier == "thorough");
    let n_lattice = placements.len();
    for i in 0..n_random {
        placements.push(gen_placement(seed, i));
    }
    // hash seeds: a fixed set for the whole batch (so a pair of seeds that disagrees is replayable)
    let hash_seeds: Vec<u64> = (0..n_hash).map(|i| mix(seed, &[tag("C13"), tag("hash"), i as u64]) % 1_000_000).collect();
    // plus, for the quick tier, rotate which seeds a placement sees so the batch as a whole covers more orders
    let all_hash: Vec<u64> = (0..64).map(|i| mix(seed, &[tag("C13"), tag("hashpool"), i as u64]) % 1_000_000).collect();

    let results = par_map(&env.scratch, &placements, &|ctx, i, p: &Placement| {
        let mut hs = hash_seeds.clone();
        // every placement additionally sees one seed from the pool
        hs.push(all_hash[i % all_hash.len()]);
        let (v, obs) = check_placement(env, ctx, p, &defaults, &table, &hs);
        (v, obs.len(), hs)
    });

    let known = load_known();
    let mut ev = Evidence::new("C13", tier, seed, "exploration");
    let mut exit = 0;
    let mut reported: BTreeSet<String> = BTreeSet::new();
    let mut runs = 0u64;
    let mut distinct: BTreeSet<u64> = BTreeSet::new();
    let mut kind_pairs: BTreeSet<(String, String)> = BTreeSet::new();
    let mut unordered_cases = 0u64;
    let mut known_hit: BTreeMap<String, (String, u64)> = BTreeMap::new();
    for (i, r) in results.iter().enumerate() {
        let (vs, nobs, hs) = r.as_ref().unwrap();
        runs += *nobs as u64;
        let p = &placements[i];
        distinct.insert(simcore::rng::fnv64(serde_json::to_string(p).unwrap().as_bytes()));
        for a in &p.sources {
            for b in &p.sources {
                if a <= b {
                    kind_pairs.insert((a.clone(), b.clone()));
                }
            }
        }
        let probe = PROBES.iter().find(|x| x.name == p.probe).unwrap();
        if acceptable(p, probe, &defaults[&default_key(p)], &table).len() > 1 {
            unordered_cases += 1;
        }
        for v in vs {
            if let Some(k) = known.matches("C13", v) {
                known_hit.entry(k.signature.clone()).or_insert((k.what.clone(), 0)).1 += 1;
                continue;
            }
            // report one violation per oracle+probe, at most 5
            let key = format!("{}:{}", v.oracle, p.probe);
            if reported.contains(&key) || reported.len() >= 5 {
                continue;
            }
            // confirm by replay
            let (again, _) = check_placement(env, &ctx0, p, &defaults, &table, hs);
            if !again.iter().any(|x| x.oracle == v.oracle) {
                eprintln!("NOTE: violation did not reproduce, not reported: {}", v.message);
                continue;
            }
            reported.insert(key);
            let m = minimise(env, &ctx0, p, &defaults, &table, hs, &v.oracle);
            let (mv, _) = check_placement(env, &ctx0, &m, &defaults, &table, hs);
            let mv = mv.into_iter().find(|x| x.oracle == v.oracle).unwrap_or_else(|| v.clone());
            let path = write_replay("C13", &format!("{}-{}", v.oracle, reported.len()), &replay_json(&m, &mv, hs, seed));
            println!("VIOLATION property=C13 replay={}", path.display());
            println!("  oracle={} {}", mv.oracle, mv.message);
            exit = 1;
        }
    }
    for (sigk, (what, n)) in &known_hit {
        println!("KNOWN-FINDING: property=C13 {} [{}] ({} placements)", what, sigk, n);
    }
    ev.evaluations = runs;
    ev.distinct_nontrivial = distinct.len() as u64;
    ev.rule = "one evaluation = one `delta ... --show-config` execution of the real binary with a generated gitconfig/args/environment under one hash seed; a placement sets one probe option from 1-5 sources drawn from 30 source kinds; the gitconfig text lives, as a function of the placement, in $HOME/.gitconfig, $XDG_CONFIG_HOME/git/config, a file pulled in by include.path, the config of a repository found from the working directory, custom sections globally + main section in the repository, or a file named by --config; the lattice part enumerates every single kind and every unordered pair of kinds for each of 13 probe options (both construction orders) plus --no-gitconfig against every kind; the rest is seeded sampling. distinct_nontrivial counts distinct placements (every placement has at least one source, i.e. something for precedence to decide).".into();
    ev.counters.insert("placements".into(), placements.len() as u64);
    for pl in &placements {
        *ev.counters.entry(format!("gitconfig_location.{}", gitconfig_location(pl))).or_default() += 1;
    }
    ev.counters.insert("lattice_placements".into(), n_lattice as u64);
    ev.counters.insert("hash_seeds_per_placement".into(), (hash_seeds.len() + 1) as u64);
    ev.counters.insert("distinct_source_kind_pairs_covered".into(), kind_pairs.len() as u64);
    ev.counters.insert("source_kind_pairs_possible".into(), (SOURCE_KINDS.len() * (SOURCE_KINDS.len() + 1) / 2) as u64);
    ev.counters.insert("placements_where_docs_leave_order_open".into(), unordered_cases);
    ev.counters.insert("fault_fired.hash_seed_variation".into(), runs);
    ev.violations = reported.len() as u64;
    ev.samples = placements.iter().step_by((placements.len() / 5).max(1)).take(5).map(|p| {
        let spec = to_spec(p, 1);
        json!({"probe": p.probe, "sources": p.sources, "args": spec.args, "env": spec.env, "gitconfig": gitconfig_text(p), "model_accepts": acceptable(p, PROBES.iter().find(|x| x.name == p.probe).unwrap(), &defaults[&default_key(p)], &table)})
    }).collect();
    ev.extra.insert("engine".into(), json!("E1-proc: real delta binary under LD_PRELOAD shim (getrandom stream = hash seed, clock pinned), hermetic HOME/XDG/PATH/cwd"));
    ev.extra.insert("real_vs_stub".into(), json!({"real": ["all of delta incl. clap, git2 config parsing"], "stub": ["none needed (--show-config starts no peers)"]}));
    ev.extra.insert("probe_defaults_read_from_binary".into(), json!(defaults));
    ev.extra.insert("builtin_feature_values_read_from_binary".into(), json!(table.iter().map(|((p, b), v)| format!("{}: {} = {}", b, p, v)).collect::<Vec<_>>()));
    ev.assumptions = vec![
        "reference model written from the manual and the comments in options/set.rs, options/get.rs; where the documentation leaves an order open (several builtin feature flags in one place, names inside one '+'-prefixed DELTA_FEATURES, that list relative to --features) every order is accepted and only determinism is required".into(),
        "what each builtin feature sets for a probe option is read from the binary by single-source runs (and cross-checked against a transcription of the feature definitions); the defaults likewise".into(),
        "options with special post-processing (styles, light/dark/syntax-theme, 24-bit-color, whitespace-error-style) are not used as probes".into(),
        "std's RandomState draws its keys through getrandom(2), which the shim owns; a canary in the determinism self-test confirms iteration order varies with the seed".into(),
    ];
    ev.wall_s = t0.elapsed().as_secs_f64();
    let part = std::env::var("EVIDENCE_PART").unwrap_or_else(|_| format!("{}/evidence/C13.json", verif_root()));
    if let Err(e) = ev.write(&part) {
        eprintln!("HARNESS-ERROR: cannot write evidence: {}", e);
        return 2;
    }
    println!("C13 {}: {} placements ({} lattice), {} runs, {} kind pairs covered, {} reported violations, {:.1}s", tier, placements.len(), n_lattice, runs, kind_pairs.len(), reported.len(), ev.wall_s);
    exit
}
