fn main() { println!("sched"); }
