//! E3 — calling-process detection (C20) under shuttle's controlled scheduler.
//!
//! Real code: `utils/process.rs` (CALLER, CALLER_INFO_SOURCE, the detection thread, the
//! `cfg(not(test))` `calling_process()`), `set_calling_process`, and — scenario S2 — option
//! parsing, `Config::from`, `delta()` and every call site that queries the calling process.
//! Stub: only the scan of the process table (`sim_guess`).
//!
//! One integer decides everything: the scheduler seed.  Scenario parameters are drawn from
//! `shuttle::rand`, so they are part of the persisted schedule and replay with it.
//!
//! The `static` shuttle atomic in process.rs is one value per OS process, so the batch is
//! parallelised over worker *processes*, never threads.

use delta::verif_hooks as dh;
use serde_json::json;
use shuttle::rand::Rng as _;
use shuttle::scheduler::{PctScheduler, RandomScheduler};
use shuttle::{Config, FailurePersistence, MaxSteps, Runner};
use simcore::evidence::Evidence;
use simcore::rng::{fnv64, mix, tag, verif_seed};
use std::collections::{BTreeMap, BTreeSet, HashMap};
use std::io::Write as _;
use std::panic::{catch_unwind, AssertUnwindSafe};
use std::sync::Mutex;
use std::time::Instant;

// ---------------------------------------------------------------------------
// Our own schedule record: every decision of the wrapped scheduler (which task runs next, every
// value handed to shuttle::rand) is logged, one execution at a time.  The replay file holds this
// list; the replayer follows it exactly and, if the code under test has changed so that the record
// no longer fits (task not runnable, record exhausted), falls back to "first runnable task / fixed
// PRNG" so that a repaired tree replays to a clean end instead of crashing the scheduler.

use shuttle::scheduler::{Schedule, Scheduler, Task, TaskId};

static DECISIONS: Mutex<Vec<i128>> = Mutex::new(Vec::new());
static DISTINCT_SCHEDULES: Mutex<Option<BTreeSet<u64>>> = Mutex::new(None);
static SCHED_POINTS: std::sync::atomic::AtomicU64 = std::sync::atomic::AtomicU64::new(0);

fn note_schedule_end() {
    let d = DECISIONS.lock().unwrap();
    if d.is_empty() {
        return;
    }
    let mut h: u64 = 0xcbf29ce484222325;
    let mut tasks = 0u64;
    for x in d.iter() {
        if *x >= 0 {
            tasks += 1;
        }
        for b in x.to_le_bytes() {
            h ^= b as u64;
            h = h.wrapping_mul(0x100000001b3);
        }
    }
    SCHED_POINTS.fetch_add(tasks, std::sync::atomic::Ordering::Relaxed);
    let mut g = DISTINCT_SCHEDULES.lock().unwrap();
    let set = g.get_or_insert_with(BTreeSet::new);
    if set.len() < 2_000_000 {
        set.insert(h);
    }
}

/// Encoding: task decision = task id (>= 0); random value v = -(v as i128) - 1.
struct Recording<S: Scheduler> {
    inner: S,
}

impl<S: Scheduler> Scheduler for Recording<S> {
    fn new_execution(&mut self) -> Option<Schedule> {
        note_schedule_end();
        DECISIONS.lock().unwrap().clear();
        self.inner.new_execution()
    }
    fn next_task(&mut self, runnable: &[&Task], current: Option<TaskId>, is_yielding: bool) -> Option<TaskId> {
        let r = self.inner.next_task(runnable, current, is_yielding);
        if let Some(t) = r {
            DECISIONS.lock().unwrap().push(usize::from(t) as i128);
        }
        r
    }
    fn next_u64(&mut self) -> u64 {
        let v = self.inner.next_u64();
        DECISIONS.lock().unwrap().push(-(v as i128) - 1);
        v
    }
}

struct Replayer {
    record: Vec<i128>,
    pos: usize,
    started: bool,
    diverged: bool,
    fallback: u64,
}

impl Replayer {
    fn new(record: Vec<i128>) -> Self {
        Replayer { record, pos: 0, started: false, diverged: false, fallback: 0x1234_5678 }
    }
}

impl Scheduler for Replayer {
    fn new_execution(&mut self) -> Option<Schedule> {
        if self.started {
            None
        } else {
            self.started = true;
            Some(Schedule::new(0))
        }
    }
    fn next_task(&mut self, runnable: &[&Task], _current: Option<TaskId>, _is_yielding: bool) -> Option<TaskId> {
        if !self.diverged {
            if let Some(x) = self.record.get(self.pos) {
                if *x >= 0 {
                    let want = TaskId::from(*x as usize);
                    if runnable.iter().any(|t| t.id() == want) {
                        self.pos += 1;
                        return Some(want);
                    }
                }
            }
            self.diverged = true;
        }
        Some(runnable[0].id())
    }
    fn next_u64(&mut self) -> u64 {
        if !self.diverged {
            if let Some(x) = self.record.get(self.pos) {
                if *x < 0 {
                    self.pos += 1;
                    return (-(*x) - 1) as u64;
                }
            }
            self.diverged = true;
        }
        simcore::rng::splitmix64(&mut self.fallback)
    }
}

fn encode_record(d: &[i128]) -> String {
    d.iter().map(|x| if *x >= 0 { format!("t{}", x) } else { format!("r{}", (-(*x) - 1) as u64) }).collect::<Vec<_>>().join(" ")
}

fn decode_record(s: &str) -> Vec<i128> {
    s.split_whitespace()
        .filter_map(|w| {
            if let Some(t) = w.strip_prefix('t') {
                t.parse::<i128>().ok()
            } else if let Some(r) = w.strip_prefix('r') {
                r.parse::<u64>().ok().map(|v| -(v as i128) - 1)
            } else {
                None
            }
        })
        .collect()
}

// ---------------------------------------------------------------------------
// statistics shared across executions of one worker process (plain std: not scheduled)

#[derive(Default)]
struct Stats {
    executions: u64,
    distinct_traces: BTreeSet<u64>,
    classes: BTreeMap<String, u64>,
    steps: u64,
    samples: Vec<String>,
}

static STATS: Mutex<Option<Stats>> = Mutex::new(None);
static REFS: Mutex<Option<HashMap<String, Vec<u8>>>> = Mutex::new(None);

fn with_stats<F: FnOnce(&mut Stats)>(f: F) {
    let mut g = STATS.lock().unwrap();
    if g.is_none() {
        *g = Some(Stats::default());
    }
    f(g.as_mut().unwrap());
}

/// A scheduling point (no priority change under PCT).
fn pause() {
    shuttle::thread::sleep(std::time::Duration::from_millis(0));
}

/// Body of a spin-wait: tells the scheduler this thread cannot make progress by itself.
fn spin() {
    shuttle::thread::yield_now();
}

fn rnd(n: u64) -> u64 {
    shuttle::rand::thread_rng().gen::<u64>() % n.max(1)
}

fn s(v: &[&str]) -> Vec<String> {
    v.iter().map(|x| x.to_string()).collect()
}

/// Command lines the process-table scan may find / delta may have launched itself.
/// All describe different calling processes, so every answer is attributable to one writer.
const COMMANDS: &[&[&str]] = &[
    &["git", "diff", "--word-diff"],
    &["git", "diff"],
    &["git", "show", "HEAD:src/x.rs"],
    &["git", "log", "-p", "--relative"],
    &["git", "blame", "src/main.rs"],
    &["git", "grep", "-n", "fn"],
    &["git", "grep", "-W", "fn"],
    &["rg", "fn"],
    &["git", "reflog", "-p"],
];
/// Accepted by `git` detection but not a command delta describes: nothing is published.
const REJECTED: &[&[&str]] = &[&["git", "status"], &["git", "-c", "x=y", "commit"], &["ls", "-l"]];

fn describe(args: &[String]) -> String {
    format!("{:?}", args)
}

// ---------------------------------------------------------------------------
// S1: the protocol

fn expected_of(args: &[String]) -> dh::CallingProcess {
    // the same parser delta uses; what matters to the oracles is identity, not content
    delta::verif_hooks::set_sim_guess(Some(args.to_vec()), 0);
    // describe_calling_process is pure; reuse sim_guess's path without yielding
    let v = delta::verif_hooks::sim_guess();
    // undo the trace entry sim_guess pushed
    let mut t = dh::trace_take();
    t.pop();
    for e in t {
        dh::trace_push(e);
    }
    v
}

fn query(tag_start: &'static str, tag_end: &'static str) -> dh::CallingProcess {
    dh::trace_push(tag_start);
    let v = {
        let g = dh::calling_process();
        (*g).clone()
    };
    dh::trace_push(tag_end);
    v
}

fn scenario_s1(max_queries: u64, allow_second_reader: bool) {
    dh::verif_reset_caller_info_source();
    let _ = dh::trace_take();

    // parameters (from the scheduler's PRNG: replayable)
    let guess_args: Option<Vec<String>> = if rnd(5) == 0 { None } else { Some(s(COMMANDS[rnd(COMMANDS.len() as u64) as usize])) };
    let publish_kind = rnd(4); // 0: none launched, 1..2: known command, 3: rejected command
    let mut known_args: Option<Vec<String>> = None;
    let mut rejected_args: Option<Vec<String>> = None;
    if publish_kind == 1 || publish_kind == 2 {
        // must differ from the guess
        loop {
            let k = s(COMMANDS[rnd(COMMANDS.len() as u64) as usize]);
            if Some(&k) != guess_args.as_ref() {
                known_args = Some(k);
                break;
            }
        }
    } else if publish_kind == 3 {
        rejected_args = Some(s(REJECTED[rnd(REJECTED.len() as u64) as usize]));
    }
    let scan_yields = rnd(4) as usize;
    let n_queries = 1 + rnd(max_queries);
    let pauses_before_publish = rnd(3);
    let second_reader = allow_second_reader && rnd(3) == 0;

    let guess_val = match &guess_args {
        Some(a) => expected_of(a),
        None => dh::CallingProcess::None,
    };
    let known_val = known_args.as_ref().map(|a| expected_of(a));
    dh::set_sim_guess(guess_args.clone(), scan_yields);

    // --- the system under test, in the order main.rs uses ---
    dh::start_determining_calling_process_in_thread();
    for _ in 0..pauses_before_publish {
        pause();
    }
    let mut published = false;
    if let Some(k) = &known_args {
        dh::trace_push("K-start");
        dh::set_calling_process(k);
        dh::trace_push("K-done");
        published = true;
    } else if let Some(r) = &rejected_args {
        dh::trace_push("K-start");
        dh::set_calling_process(r);
        dh::trace_push("K-rejected");
    }

    let reader = if second_reader {
        let kv = known_val.clone();
        let gv = guess_val.clone();
        Some(shuttle::thread::spawn(move || {
            // a second thread querying the process-global API
            let v = {
                let g = dh::calling_process();
                (*g).clone()
            };
            assert!(v != dh::CallingProcess::Pending, "O1: second reader observed Pending");
            if published {
                assert!(Some(&v) == kv.as_ref(), "O2: second reader got {:?} after a known command was published", v);
            } else {
                assert!(v == gv, "O2b: second reader got {:?}, expected the background answer {:?}", v, gv);
            }
        }))
    } else {
        None
    };

    let mut answers: Vec<dh::CallingProcess> = Vec::new();
    const QS: [&str; 6] = ["Q0-start", "Q1-start", "Q2-start", "Q3-start", "Q4-start", "Q5-start"];
    const QE: [&str; 6] = ["Q0-ret", "Q1-ret", "Q2-ret", "Q3-ret", "Q4-ret", "Q5-ret"];
    for i in 0..n_queries as usize {
        let v = query(QS[i], QE[i]);
        // O1
        assert!(v != dh::CallingProcess::Pending, "O1: query {} observed Pending", i);
        // O2
        if published {
            assert!(Some(&v) == known_val.as_ref(), "O2: query {} returned {:?} although the launched command {:?} had been published", i, v, known_val);
        } else {
            assert!(v == guess_val, "O2b: query {} returned {:?}, expected the background answer {:?}", i, v, guess_val);
        }
        // O3
        if let Some(prev) = answers.last() {
            assert!(prev == &v, "O3: answers changed between queries: {:?} then {:?}", prev, v);
        }
        answers.push(v);
        for _ in 0..rnd(3) {
            pause();
        }
    }
    // O5: after the background thread has finished its critical section the cell still holds the right value
    let mut spins = 0;
    while !dh::trace_contains("D-done") {
        spin();
        spins += 1;
        assert!(spins < 10_000, "O4: background determination never finished");
    }
    let fin = query("QF-start", "QF-ret");
    assert!(fin != dh::CallingProcess::Pending, "O1: final query observed Pending");
    if published {
        assert!(Some(&fin) == known_val.as_ref(), "O5: after the background thread finished the answer is {:?}, the launched command {:?} was overwritten", fin, known_val);
    } else {
        assert!(fin == guess_val, "O5: final answer {:?}, expected {:?}", fin, guess_val);
    }
    if let Some(r) = reader {
        r.join().unwrap();
    }
    record_trace("S1", &format!("guess={} known={} rejected={} q={}", guess_args.as_ref().map(|a| describe(a)).unwrap_or("none".into()), known_args.as_ref().map(|a| describe(a)).unwrap_or("none".into()), rejected_args.is_some(), n_queries));
}

/// Event-order class of the execution: where the background thread's scan finished and where its
/// critical section ended, relative to the main thread's publication and queries.
fn record_trace(scn: &str, params: &str) {
    let t = dh::trace_take();
    let pos = |e: &str| t.iter().position(|x| *x == e);
    let mut classes: Vec<String> = Vec::new();
    for (name, ev) in [("scan-done", "D-scan-done"), ("critical-section-end", "D-done")] {
        if let Some(p) = pos(ev) {
            // the last main-thread event before it
            let before = t[..p].iter().rev().find(|x| !x.starts_with("D-") && !x.starts_with("W-")).copied().unwrap_or("spawn");
            let cls = match before {
                "spawn" => "before-publication-and-queries".to_string(),
                "K-start" => "during-publication".to_string(),
                "K-done" | "K-rejected" => "between-publication-and-first-query".to_string(),
                x if x.ends_with("-start") => "while-a-query-is-running-or-waiting".to_string(),
                x if x.ends_with("-ret") => "between-or-after-queries".to_string(),
                x => x.to_string(),
            };
            classes.push(format!("{}.{}.{}", scn, name, cls));
        }
    }
    // fault kind: wake-ups without a publication (the hook's condition variable)
    let spurious = t.iter().filter(|x| **x == "W-spurious-notify").count() as u64;
    if spurious > 0 {
        classes.push(format!("{}.fault.spurious-wakeup-notifications", scn));
    }
    let h = fnv64(format!("{}|{:?}", params, t).as_bytes());
    with_stats(|st| {
        st.executions += 1;
        st.distinct_traces.insert(h);
        for c in classes {
            *st.classes.entry(c).or_default() += 1;
        }
        st.steps += t.len() as u64;
        if st.samples.len() < 3 {
            st.samples.push(format!("{} {} trace={:?}", scn, params, t));
        }
    });
}

// ---------------------------------------------------------------------------
// S2: the application

struct Variant {
    name: String,
    delta_args: Vec<&'static str>,
    /// the command that produced the input
    real_cmd: &'static [&'static str],
    /// a different command the scan might find when delta launched the real one itself
    other_cmd: &'static [&'static str],
    input: &'static str,
}

const DIFF_WD: &str = "diff --git a/src/x.rs b/src/x.rs\nindex 1111111..2222222 100644\n--- a/src/x.rs\n+++ b/src/x.rs\n@@ -1,3 +1,3 @@ fn main()\n let a = 1;\n let [-b-]{+c+} = 2;\n let d = 3;\n";
const DIFF: &str = "diff --git a/src/x.rs b/src/x.rs\nindex 1111111..2222222 100644\n--- a/src/x.rs\n+++ b/src/x.rs\n@@ -1,3 +1,3 @@ fn main()\n let a = 1;\n-let b = 2;\n+let c = 2;\n let d = 3;\n";
const BLAME: &str = "aaaaaaa1 (Dan Davison 2021-01-01 10:00:00 +0100  1) fn main() {\naaaaaaa1 (Dan Davison 2021-01-01 10:00:00 +0100  2)     let x = 1;\nbbbbbbb2 (A U Thor    2021-02-01 10:00:00 +0100  3) }\n";
// git grep output: match lines (:), context lines (-), function-context header lines (=, from -p / -W), section separators
const GREP: &str = "src/x.rs=9=fn main() {\nsrc/x.rs:10:    let fn_x = 1;\nsrc/x.rs-11-    let x = 1;\n--\nsrc/y.py=2=class A:\nsrc/y.py:3:def fn():\n";
const SHOWFILE: &str = "fn main() {\n    let x = \"str\";\n}\n";

/// input kinds: (name, command that produced it, another command, input)
const KINDS: &[(&str, &[&str], &[&str], &str)] = &[
    ("word-diff", &["git", "diff", "--word-diff"], &["git", "diff"], DIFF_WD),
    ("plain-diff", &["git", "diff"], &["git", "diff", "--word-diff"], DIFF),
    ("relative-diff", &["git", "diff", "--relative"], &["git", "diff"], DIFF),
    ("show-word-diff", &["git", "show", "--color-words"], &["git", "show"], DIFF_WD),
    ("blame", &["git", "blame", "src/x.rs"], &["git", "blame", "notes.txt"], BLAME),
    ("grep", &["git", "grep", "-n", "fn"], &["git", "diff"], GREP),
    ("grep-p", &["git", "grep", "-p", "-n", "fn"], &["git", "grep", "-n", "fn"], GREP),
    ("grep-W", &["git", "grep", "-W", "-n", "fn"], &["git", "grep", "-n", "fn"], GREP),
    ("rg", &["rg", "fn"], &["git", "grep", "fn"], GREP),
    ("show-file", &["git", "show", "HEAD:src/x.rs"], &["git", "show", "HEAD:notes.txt"], SHOWFILE),
];

/// option sets crossed with every input kind: each reaches other call sites of calling_process()
const OPTION_SETS: &[(&str, &[&str])] = &[
    ("default", &[]),
    ("line-numbers", &["--line-numbers"]),
    ("side-by-side", &["--side-by-side"]),
    ("hyperlinks", &["--hyperlinks"]),
    ("relative-hyperlinks-navigate", &["--relative-paths", "--hyperlinks", "--navigate"]),
];

fn variants() -> Vec<Variant> {
    let mut v = Vec::new();
    for (kname, real, other, input) in KINDS {
        for (oname, opts) in OPTION_SETS {
            v.push(Variant { name: format!("{}/{}", kname, oname), delta_args: opts.to_vec(), real_cmd: real, other_cmd: other, input });
        }
    }
    v
}

/// Run delta the way main.rs does, return the rendered bytes.
fn render(v: &Variant, launched: bool, scan_finds: Option<Vec<String>>, scan_yields: usize, sequential: bool) -> Vec<u8> {
    dh::verif_reset_caller_info_source();
    dh::set_sim_guess(scan_finds, scan_yields);
    dh::start_determining_calling_process_in_thread();
    if sequential {
        let mut spins = 0;
        while !dh::trace_contains("D-done") {
            spin();
            spins += 1;
            assert!(spins < 10_000, "O4: background determination never finished");
        }
    }
    let mut args: Vec<std::ffi::OsString> = vec!["delta".into(), "--no-gitconfig".into(), "--width".into(), "100".into(), "--paging".into(), "never".into()];
    for a in &v.delta_args {
        args.push((*a).into());
    }
    if launched {
        // delta launched the command itself: `delta git diff ...`
        for a in v.real_cmd {
            args.push((*a).into());
        }
    }
    let env = dh::DeltaEnv::default();
    let assets = dh::load_highlighting_assets();
    let (call, opt) = dh::Opt::from_args_and_git_config(args, &env, assets);
    if let dh::Call::SubCommand(_, cmd) = &call {
        dh::trace_push("K-start");
        dh::set_calling_process(&cmd.args.iter().map(|a| a.to_string_lossy().to_string()).collect::<Vec<_>>());
        dh::trace_push("K-done");
    }
    if rnd(2) == 0 && !sequential {
        pause();
    }
    let opt = opt.expect("Opt");
    dh::trace_push("Q0-start");
    let config = dh::Config::from(opt);
    dh::trace_push("Q0-ret");
    let mut out: Vec<u8> = Vec::new();
    {
        use bytelines::ByteLinesReader;
        let reader = std::io::BufReader::new(v.input.as_bytes());
        dh::trace_push("Q1-start");
        dh::delta(reader.byte_lines(), &mut out, &config).expect("delta() failed");
        dh::trace_push("Q1-ret");
    }
    // let the background thread finish before the execution ends (and check liveness)
    let mut spins = 0;
    while !dh::trace_contains("D-done") {
        spin();
        spins += 1;
        assert!(spins < 10_000, "O4: background determination never finished");
    }
    out
}

fn scenario_s2(reference_pass: bool, fixed: Option<(usize, bool)>) {
    let _ = dh::trace_take();
    let (vi, launched) = match fixed {
        Some(x) => x,
        None => (rnd(variants().len() as u64) as usize, rnd(2) == 0),
    };
    let all = variants();
    let v = &all[vi];
    // what the scan finds: when delta launched the command, the scan may find something else
    // (it must never win); otherwise it finds the real producer of the input.
    let scan_finds: Option<Vec<String>> = if launched {
        if rnd(3) == 0 {
            None
        } else {
            Some(s(v.other_cmd))
        }
    } else {
        Some(s(v.real_cmd))
    };
    let key = format!("{}:{}", v.name, launched);
    if reference_pass {
        let out = render(v, launched, scan_finds, 0, true);
        let mut g = REFS.lock().unwrap();
        g.get_or_insert_with(HashMap::new).insert(key, out);
        let _ = dh::trace_take();
        return;
    }
    let yields = rnd(4) as usize;
    let out = render(v, launched, scan_finds.clone(), yields, false);
    let refs = REFS.lock().unwrap();
    let want = refs.as_ref().and_then(|m| m.get(&key)).expect("reference output missing");
    assert!(
        &out == want,
        "O6: rendered output depends on the thread schedule (variant {}, launched={}, scan finds {:?}):\n--- sequential reference ---\n{}\n--- this schedule ---\n{}",
        v.name,
        launched,
        scan_finds,
        String::from_utf8_lossy(want),
        String::from_utf8_lossy(&out)
    );
    drop(refs);
    record_trace("S2", &format!("variant={} launched={}", v.name, launched));
}

// ---------------------------------------------------------------------------

fn config(dir: &str, big_stack: bool) -> Config {
    let mut c = Config::new();
    c.stack_size = if big_stack { 16 << 20 } else { 1 << 20 };
    c.failure_persistence = FailurePersistence::File(Some(dir.into()));
    c.max_steps = MaxSteps::FailAfter(200_000);
    c.silence_warnings = true;
    c
}

fn s2_references(dir: &str) {
    // sequential reference outputs, one deterministic execution per (variant, launched)
    for vi in 0..variants().len() {
        for launched in [false, true] {
            let runner = Runner::new(Recording { inner: RandomScheduler::new_from_seed(1, 1) }, config(dir, true));
            runner.run(move || scenario_s2(true, Some((vi, launched))));
        }
    }
    // O7: a command delta launched itself is reported as launched — rendering the same input
    // must give the same bytes whether delta launched the producer (and the background scan found
    // something else or nothing) or the background scan found the producer.
    let refs = REFS.lock().unwrap();
    if let Some(m) = refs.as_ref() {
        for v in variants().iter() {
            let a = m.get(&format!("{}:false", v.name));
            let b = m.get(&format!("{}:true", v.name));
            if let (Some(a), Some(b)) = (a, b) {
                assert!(
                    a == b,
                    "O7: variant {}: the input renders differently when delta launched `{}` itself than when the background scan found that command:\n--- found by the scan ---\n{}\n--- launched by delta ---\n{}",
                    v.name,
                    v.real_cmd.join(" "),
                    String::from_utf8_lossy(a),
                    String::from_utf8_lossy(b)
                );
            }
        }
    }
}

fn run_worker(scenario: &str, sched: &str, seed: u64, iters: usize, dir: &str, cap: u64) -> i32 {
    std::fs::create_dir_all(dir).ok();
    let scenario_owned = scenario.to_string();
    let big = scenario == "S2";
    if big {
        if let Err(e) = catch_unwind(AssertUnwindSafe(|| s2_references(dir))) {
            let msg = e.downcast_ref::<String>().cloned().or_else(|| e.downcast_ref::<&str>().map(|s| s.to_string())).unwrap_or_default();
            let rec = encode_record(&DECISIONS.lock().unwrap_or_else(|e| e.into_inner()));
            let _ = std::fs::write(format!("{}/result.json", dir), serde_json::to_string(&json!({"failure": format!("(sequential reference run) {}", msg), "record": rec, "reference_pass": true, "executions": 0})).unwrap());
            return 1;
        }
    }
    let cfg = config(dir, big);
    let body = move || {
        if scenario_owned == "S1" {
            scenario_s1(cap, cap > 1)
        } else {
            scenario_s2(false, None)
        }
    };
    let t0 = Instant::now();
    let res = catch_unwind(AssertUnwindSafe(|| match sched {
        "pct1" => Runner::new(Recording { inner: PctScheduler::new_from_seed(seed, 1, iters) }, cfg).run(body),
        "pct2" => Runner::new(Recording { inner: PctScheduler::new_from_seed(seed, 2, iters) }, cfg).run(body),
        "pct3" => Runner::new(Recording { inner: PctScheduler::new_from_seed(seed, 3, iters) }, cfg).run(body),
        _ => Runner::new(Recording { inner: RandomScheduler::new_from_seed(seed, iters) }, cfg).run(body),
    }));
    if res.is_ok() {
        note_schedule_end();
    }
    let mut out = serde_json::Map::new();
    let st = STATS.lock().unwrap_or_else(|e| e.into_inner()).take().unwrap_or_default();
    out.insert("executions".into(), json!(st.executions));
    out.insert("distinct_traces".into(), json!(st.distinct_traces.iter().collect::<Vec<_>>()));
    out.insert("classes".into(), json!(st.classes));
    out.insert("steps".into(), json!(st.steps));
    out.insert("samples".into(), json!(st.samples));
    out.insert("wall_s".into(), json!(t0.elapsed().as_secs_f64()));
    out.insert("distinct_schedules".into(), json!(DISTINCT_SCHEDULES.lock().unwrap_or_else(|e| e.into_inner()).as_ref().map(|s| s.len()).unwrap_or(0)));
    out.insert("scheduling_points".into(), json!(SCHED_POINTS.load(std::sync::atomic::Ordering::Relaxed)));
    if res.is_err() {
        out.insert("record".into(), json!(encode_record(&DECISIONS.lock().unwrap_or_else(|e| e.into_inner()))));
    }
    let code = match res {
        Ok(_) => 0,
        Err(e) => {
            let msg = if let Some(s) = e.downcast_ref::<String>() {
                s.clone()
            } else if let Some(s) = e.downcast_ref::<&str>() {
                s.to_string()
            } else {
                "panic".to_string()
            };
            out.insert("failure".into(), json!(msg));
            1
        }
    };
    let _ = std::fs::write(format!("{}/result.json", dir), serde_json::to_string(&out).unwrap());
    code
}

fn replay(path: &str) -> i32 {
    let text = match std::fs::read_to_string(path) {
        Ok(t) => t,
        Err(e) => {
            eprintln!("cannot read {}: {}", path, e);
            return 2;
        }
    };
    let v: serde_json::Value = serde_json::from_str(&text).unwrap();
    let scenario = v["scenario"].as_str().unwrap_or("S1").to_string();
    let cap = v["cap"].as_u64().unwrap_or(4);
    let schedule = v["schedule"].as_str().unwrap_or("").to_string();
    let reference_pass = v["reference_pass"].as_bool().unwrap_or(false);
    let fixed_variant = v["fixed"].as_array().map(|a| (a[0].as_u64().unwrap_or(0) as usize, a[1].as_bool().unwrap_or(false)));
    let dir = format!("{}/replay-tmp", scratch());
    std::fs::create_dir_all(&dir).ok();
    let big = scenario == "S2";
    let mut refs_failed: Option<String> = None;
    if big {
        if let Err(e) = catch_unwind(AssertUnwindSafe(|| s2_references(&dir))) {
            refs_failed = Some(e.downcast_ref::<String>().cloned().or_else(|| e.downcast_ref::<&str>().map(|s| s.to_string())).unwrap_or_default());
        }
    }
    if reference_pass || refs_failed.is_some() {
        // the recorded failure was in (or this tree fails already in) the deterministic sequential reference run
        let _ = std::fs::remove_dir_all(&dir);
        let _ = std::fs::remove_dir_all(scratch());
        return match refs_failed {
            Some(m) => {
                println!("VIOLATION property=C20 replay={}", path);
                println!("  (sequential reference run) {}", m.lines().next().unwrap_or(""));
                1
            }
            None => {
                println!("replay {}: no violation (property holds on this tree for this schedule)", path);
                0
            }
        };
    }
    let _ = fixed_variant;
    let mut cfg = config(&dir, big);
    cfg.failure_persistence = FailurePersistence::None;
    let sc = scenario.clone();
    let res = catch_unwind(AssertUnwindSafe(|| {
        Runner::new(Replayer::new(decode_record(&schedule)), cfg).run(move || {
            if sc == "S1" {
                scenario_s1(cap, cap > 1)
            } else {
                scenario_s2(false, None)
            }
        })
    }));
    let _ = std::fs::remove_dir_all(&dir);
    let _ = std::fs::remove_dir_all(scratch());
    match res {
        Ok(_) => {
            println!("replay {}: no violation (property holds on this tree for this schedule)", path);
            0
        }
        Err(e) => {
            let msg = e.downcast_ref::<String>().cloned().or_else(|| e.downcast_ref::<&str>().map(|s| s.to_string())).unwrap_or_default();
            println!("VIOLATION property=C20 replay={}", path);
            println!("  {}", msg.lines().next().unwrap_or(""));
            1
        }
    }
}

fn scratch() -> String {
    let root = std::env::var("VERIF_SCRATCH").unwrap_or_else(|_| if std::path::Path::new("/dev/shm").is_dir() { "/dev/shm".into() } else { "/verif/.build/runs".into() });
    format!("{}/deltasim-sched.{}", root, std::process::id())
}

fn verif_root() -> String {
    std::env::var("VERIF_ROOT").unwrap_or_else(|_| "/verif".into())
}

fn oracle_of(msg: &str) -> String {
    if msg.contains("deadlock") {
        return "O4-deadlock".into();
    }
    if msg.contains("exceeded max_steps") || msg.contains("max_steps") {
        return "O4-livelock".into();
    }
    for o in ["O1", "O2b", "O2", "O3", "O4", "O5", "O6", "O7"] {
        if msg.contains(&format!("{}:", o)) {
            return o.into();
        }
    }
    "panic".into()
}

fn master(tier: &str, seed: u64) -> i32 {
    let t0 = Instant::now();
    let exe = std::env::current_exe().unwrap();
    let base = scratch();
    std::fs::create_dir_all(&base).ok();
    let jobs: usize = std::env::var("VERIF_JOBS").ok().and_then(|s| s.parse().ok()).unwrap_or_else(|| std::thread::available_parallelism().map(|n| n.get()).unwrap_or(4));
    // (scenario, scheduler, iterations per worker, number of workers)
    let (s1_iters, s2_iters) = if tier == "thorough" { (3_000_000usize, 3_000usize) } else { (15_000usize, 40usize) };
    let mut plan: Vec<(String, String, usize, u64)> = Vec::new();
    let scheds = ["random", "random", "pct1", "pct2", "pct3", "random", "pct2", "random"];
    for w in 0..jobs {
        plan.push(("S1".into(), scheds[w % scheds.len()].into(), s1_iters, 4));
    }
    for w in 0..jobs {
        plan.push(("S2".into(), scheds[(w + 1) % scheds.len()].into(), s2_iters, 4));
    }
    let mut results: Vec<(usize, i32, serde_json::Value)> = Vec::new();
    let mut idx = 0;
    while idx < plan.len() {
        let chunk: Vec<usize> = (idx..(idx + jobs).min(plan.len())).collect();
        let mut children = Vec::new();
        for &i in &chunk {
            let (sc, sd, it, cap) = &plan[i];
            let wseed = mix(seed, &[tag("C20"), tag(sc), i as u64]);
            let dir = format!("{}/w{}", base, i);
            let child = std::process::Command::new(&exe)
                .args(["worker", sc, sd, &wseed.to_string(), &it.to_string(), &dir, &cap.to_string()])
                .stdout(std::process::Stdio::null())
                .stderr(std::fs::File::create(format!("{}/w{}.stderr", base, i)).unwrap())
                .spawn()
                .expect("spawn worker");
            children.push((i, child, dir));
        }
        for (i, mut c, dir) in children {
            let st = c.wait().unwrap();
            let v: serde_json::Value = std::fs::read_to_string(format!("{}/result.json", dir)).ok().and_then(|t| serde_json::from_str(&t).ok()).unwrap_or(json!({}));
            results.push((i, st.code().unwrap_or(-1), v));
        }
        idx += jobs;
    }

    let mut ev = Evidence::new("C20", tier, seed, "exploration");
    let mut classes: BTreeMap<String, u64> = BTreeMap::new();
    let mut distinct: BTreeSet<u64> = BTreeSet::new();
    let mut executions = 0u64;
    let mut distinct_schedules = 0u64;
    let mut sched_points = 0u64;
    let mut steps = 0u64;
    let mut exit = 0;
    let mut reported = 0;
    let mut harness_errors = 0;
    let known_path = format!("{}/known_findings.json", verif_root());
    let known: serde_json::Value = std::fs::read_to_string(&known_path).ok().and_then(|t| serde_json::from_str(&t).ok()).unwrap_or(json!({}));
    for (i, code, v) in &results {
        executions += v["executions"].as_u64().unwrap_or(0);
        distinct_schedules += v["distinct_schedules"].as_u64().unwrap_or(0);
        sched_points += v["scheduling_points"].as_u64().unwrap_or(0);
        steps += v["steps"].as_u64().unwrap_or(0);
        if let Some(a) = v["distinct_traces"].as_array() {
            for x in a {
                if let Some(n) = x.as_u64() {
                    distinct.insert(n);
                }
            }
        }
        if let Some(m) = v["classes"].as_object() {
            for (k, n) in m {
                *classes.entry(k.clone()).or_default() += n.as_u64().unwrap_or(0);
            }
        }
        if ev.samples.len() < 6 {
            if let Some(a) = v["samples"].as_array() {
                for x in a.iter().take(1) {
                    ev.samples.push(x.clone());
                }
            }
        }
        if *code != 0 {
            let msg = v["failure"].as_str().unwrap_or("").to_string();
            if msg.is_empty() {
                eprintln!("HARNESS-ERROR: worker {} ended with code {} and no result (see {}/w{}.stderr)", i, code, base, i);
                let _ = std::io::stderr().write_all(&std::fs::read(format!("{}/w{}.stderr", base, i)).unwrap_or_default());
                harness_errors += 1;
                continue;
            }
            let oracle = oracle_of(&msg);
            let (sc, sd, _it, cap) = &plan[*i];
            let sig = format!("{}:{}", sc, oracle);
            if let Some(f) = known["findings"].as_array().and_then(|a| a.iter().find(|f| f["property"] == "C20" && f["signature"] == sig.as_str())) {
                println!("KNOWN-FINDING: property=C20 {} [{}]", f["what"].as_str().unwrap_or(""), sig);
                continue;
            }
            if reported >= 3 {
                continue;
            }
            // the recorded decision sequence of the failing execution
            let schedule = v["record"].as_str().unwrap_or("").to_string();
            let reference_pass = v["reference_pass"].as_bool().unwrap_or(false);
            // minimise: re-search with the scenario capped ever lower, keep the shortest failing schedule
            let mut best = (schedule.clone(), *cap, msg.clone());
            if sc == "S1" {
                for c in [1u64, 2] {
                    let dir = format!("{}/min{}-{}", base, i, c);
                    let wseed = mix(seed, &[tag("C20-min"), *i as u64, c]);
                    let st = std::process::Command::new(&exe).args(["worker", "S1", sd, &wseed.to_string(), "200000", &dir, &c.to_string()]).stdout(std::process::Stdio::null()).stderr(std::process::Stdio::null()).status();
                    if let Ok(st) = st {
                        if st.code() == Some(1) {
                            let r: serde_json::Value = std::fs::read_to_string(format!("{}/result.json", dir)).ok().and_then(|t| serde_json::from_str(&t).ok()).unwrap_or(json!({}));
                            let m2 = r["failure"].as_str().unwrap_or("").to_string();
                            let s2 = r["record"].as_str().unwrap_or("").to_string();
                            if oracle_of(&m2) == oracle && !s2.is_empty() && s2.len() <= best.0.len() {
                                best = (s2, c, m2);
                                break;
                            }
                        }
                    }
                }
            }
            reported += 1;
            let rdir = std::env::var("VERIF_REPLAY_DIR").unwrap_or_else(|_| format!("{}/replays", verif_root()));
            std::fs::create_dir_all(&rdir).ok();
            let path = format!("{}/C20-{}-{}.json", rdir, oracle, reported);
            let body = json!({"property": "C20", "engine": "E3-sched(shuttle)", "seed": seed, "scenario": sc, "scheduler": sd, "cap": best.1, "oracle": oracle, "message": best.2, "reference_pass": reference_pass, "schedule": best.0});
            let _ = std::fs::write(&path, serde_json::to_string_pretty(&body).unwrap() + "\n");
            println!("VIOLATION property=C20 replay={}", path);
            println!("  oracle={} scenario={} {}", oracle, sc, best.2.lines().next().unwrap_or(""));
            exit = 1;
        }
    }
    ev.evaluations = executions;
    ev.distinct_nontrivial = distinct.len() as u64;
    ev.rule = "one evaluation = one shuttle execution (one complete thread schedule) of scenario S1 (protocol: real detection thread + real set_calling_process + 1-5 real queries, optional second reader) or S2 (application: option parsing, Config::from and delta() over an input whose rendering depends on the calling process). distinct_nontrivial = distinct (scenario parameters, order of trace events across the two or three threads) tuples observed; every execution has at least two threads.".into();
    for (k, v) in &classes {
        ev.counters.insert(format!("order_class.{}", k), *v);
    }
    ev.counters.insert("workers".into(), plan.len() as u64);
    ev.counters.insert("distinct_schedules_by_decision_hash_summed_over_workers".into(), distinct_schedules);
    ev.counters.insert("scheduling_points_total".into(), sched_points);
    ev.counters.insert("trace_events_total".into(), steps);
    ev.violations = reported as u64;
    ev.extra.insert("engine".into(), json!("E3-sched: shuttle 0.9.3, RandomScheduler and PctScheduler(depth 1..3), seeded; worker processes (the static shuttle atomic is one per process)"));
    ev.extra.insert("real_vs_stub".into(), json!({"real": ["src/utils/process.rs protocol (Mutex/Condvar/AtomicUsize via shuttle)", "set_calling_process/describe_calling_process", "cfg(not(test)) calling_process()", "S2: Opt::from_args_and_git_config, Config::from, delta(), call sites in hunk.rs/grep.rs/blame.rs/git_show_file.rs/utils/path.rs"], "stub": ["the /proc scan inside determine_calling_process (returns a scenario-chosen command line after 0-3 scheduling points)"]}));
    ev.extra.insert("simulated_steps".into(), json!({"trace_events": steps, "note": "delta has no timers; steps are scheduling-relevant events"}));
    ev.assumptions = vec!["shuttle is sequentially consistent: weak-memory reorderings are not explored (both accesses to the atomic happen under the mutex)".into(), "correctness of the /proc heuristics themselves is not part of C20".into()];
    ev.wall_s = t0.elapsed().as_secs_f64();
    let part = std::env::var("EVIDENCE_PART").unwrap_or_else(|_| format!("{}/evidence/C20.json", verif_root()));
    if let Err(e) = ev.write(&part) {
        eprintln!("HARNESS-ERROR: cannot write evidence: {}", e);
        return 2;
    }
    // reach: every event-order class must have been hit, else the batch is insufficient
    if exit == 0 {
        for need in ["S1.scan-done.before-publication-and-queries", "S1.scan-done.between-publication-and-first-query", "S1.scan-done.while-a-query-is-running-or-waiting", "S1.scan-done.between-or-after-queries", "S1.critical-section-end.while-a-query-is-running-or-waiting", "S2.scan-done.while-a-query-is-running-or-waiting", "S1.fault.spurious-wakeup-notifications"] {
            if classes.get(need).copied().unwrap_or(0) == 0 {
                eprintln!("HARNESS-ERROR: event-order class {} never reached", need);
                exit = 2;
            }
        }
    }
    if harness_errors > 0 && exit == 0 {
        exit = 2;
    }
    println!("C20 {}: {} executions, {} distinct (parameters, event order) tuples, {} violations, {:.1}s", tier, executions, distinct.len(), reported, ev.wall_s);
    let _ = std::fs::remove_dir_all(&base);
    exit
}

fn main() {
    let args: Vec<String> = std::env::args().collect();
    match args.get(1).map(|x| x.as_str()) {
        Some("worker") => {
            let code = run_worker(&args[2], &args[3], args[4].parse().unwrap(), args[5].parse().unwrap(), &args[6], args[7].parse().unwrap());
            std::process::exit(code);
        }
        Some("C20") => {
            if let Some(i) = args.iter().position(|a| a == "--replay") {
                std::process::exit(replay(&args[i + 1]));
            }
            let tier = args.get(2).map(|x| x.as_str()).unwrap_or("quick");
            std::process::exit(master(tier, verif_seed()));
        }
        _ => {
            eprintln!("usage: deltasim-sched C20 quick|thorough [--replay file]");
            std::process::exit(2);
        }
    }
}
