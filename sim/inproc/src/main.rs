fn main() { println!("inproc"); }
