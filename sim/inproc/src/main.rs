//! deltasim-inproc: engine E2 (in-process simulation on delta's BufRead / Write seams).

mod c10;
mod c11;
mod c13;
mod c18;
mod sim;

use delta::verif_hooks as dh;
use serde_json::json;
use simcore::evidence::Evidence;
use simcore::report::*;
use simcore::rng::verif_seed;
use std::collections::{BTreeMap, BTreeSet};
use std::sync::atomic::{AtomicUsize, Ordering};
use std::sync::Mutex;
use std::time::Instant;

#[global_allocator]
static ALLOC: sim::Counting = sim::Counting;

pub fn workers() -> usize {
    std::env::var("VERIF_JOBS").ok().and_then(|s| s.parse().ok()).unwrap_or_else(|| std::thread::available_parallelism().map(|n| n.get()).unwrap_or(4))
}

/// Parallel map, results in task order (independent of the worker count).
pub fn par_map<R: Send>(n: usize, f: &(dyn Fn(usize) -> R + Sync)) -> Vec<R> {
    let next = AtomicUsize::new(0);
    let results: Mutex<Vec<Option<R>>> = Mutex::new((0..n).map(|_| None).collect());
    std::thread::scope(|s| {
        for _ in 0..workers().min(n.max(1)) {
            s.spawn(|| loop {
                let i = next.fetch_add(1, Ordering::Relaxed);
                if i >= n {
                    break;
                }
                let r = f(i);
                results.lock().unwrap()[i] = Some(r);
            });
        }
    });
    results.into_inner().unwrap().into_iter().map(|x| x.unwrap()).collect()
}

fn quiet_panics() {
    // delta panics are caught and counted; keep stderr readable
    std::panic::set_hook(Box::new(|_| {}));
}

pub fn evidence_path(id: &str) -> String {
    std::env::var("EVIDENCE_PART").unwrap_or_else(|_| format!("{}/evidence/{}.json", verif_root(), id))
}

// ---------------------------------------------------------------------------

fn main_c11(tier: &str, seed: u64, replay: Option<&str>) -> i32 {
    let t0 = Instant::now();
    if let Some(path) = replay {
        let v: serde_json::Value = match std::fs::read_to_string(path).ok().and_then(|t| serde_json::from_str(&t).ok()) {
            Some(v) => v,
            None => {
                eprintln!("cannot read {}", path);
                return 2;
            }
        };
        let oracle = v["oracle"].as_str().unwrap_or("").to_string();
        if oracle == "M-memory" {
            let args: Vec<String> = serde_json::from_value(v["mem_args"].clone()).unwrap_or_default();
            let n = v["mem_n"].as_u64().unwrap_or(500) as usize;
            let (viol, _) = c11::memory_check(&args, n, v["seed"].as_u64().unwrap_or(1), v["mem_long_lines"].as_bool().unwrap_or(false), v["mem_many_files"].as_bool().unwrap_or(false), v["mem_wrap_shapes"].as_bool().unwrap_or(false), v["mem_many_commits"].as_bool().unwrap_or(false), v["mem_giant_hunk"].as_bool().unwrap_or(false));
            return match viol {
                Some(x) => {
                    println!("VIOLATION property=C11 replay={}", path);
                    println!("  oracle={} {}", x.oracle, x.message);
                    1
                }
                None => {
                    println!("replay {}: no violation", path);
                    0
                }
            };
        }
        let case: c11::Case = serde_json::from_value(v["case"].clone()).unwrap();
        let (vs, _) = c11::check_case(&case);
        return match vs.iter().find(|x| x.oracle == oracle) {
            Some(x) => {
                println!("VIOLATION property=C11 replay={}", path);
                println!("  oracle={} {}", x.oracle, x.message);
                1
            }
            None => {
                println!("replay {}: no violation of {} (property holds on this tree for this case)", path, oracle);
                0
            }
        };
    }
    let worddiff = std::env::var("DELTASIM_CALLER").as_deref() == Ok("worddiff");
    let n = match (tier == "thorough", worddiff) {
        (true, false) => 400_000,
        (true, true) => 40_000,
        (false, false) => 6_000,
        (false, true) => 800,
    };
    let results = par_map(n, &|i| {
        let mut case = c11::gen_case(seed, i);
        if worddiff {
            c11::to_word_diff(&mut case);
        }
        // fresh thread: the hash keys of this case derive from its own seed
        sim::on_fresh_thread(simcore::rng::mix(seed, &[simcore::rng::tag("C11-hash"), i as u64]), move || c11::check_case(&case))
    });
    let mut counters: BTreeMap<String, u64> = BTreeMap::new();
    let mut shapes: BTreeSet<String> = BTreeSet::new();
    let mut first: Vec<(usize, Violation)> = Vec::new();
    for (i, (v, st)) in results.iter().enumerate() {
        c11::merge_stats(&mut counters, st);
        shapes.insert(st.shape.clone());
        if let Some(x) = v.first() {
            first.push((i, x.clone()));
        }
    }
    // memory oracle
    let mem_n = if tier == "thorough" { 3000 } else { 300 };
    let mem_cfgs: Vec<Vec<String>> = vec![
        vec!["--no-gitconfig".into(), "--width".into(), "120".into()],
        vec!["--no-gitconfig".into(), "--width".into(), "120".into(), "--side-by-side".into(), "--line-numbers".into()],
        vec!["--no-gitconfig".into(), "--width".into(), "120".into(), "--syntax-theme".into(), "none".into(), "--line-buffer-size".into(), "2".into()],
        vec!["--no-gitconfig".into(), "--width".into(), "120".into(), "--color-only".into()],
        // everything that decorates lines with per-line or per-file extras
        vec!["--no-gitconfig".into(), "--width".into(), "120".into(), "--hyperlinks".into(), "--line-numbers".into(), "--navigate".into(), "--relative-paths".into()],
        vec!["--no-gitconfig".into(), "--width".into(), "120".into(), "--side-by-side".into(), "--hyperlinks".into(), "--diff-so-fancy".into()],
        // wide and narrow terminals, wrapping without limit, truncation instead of wrapping
        vec!["--no-gitconfig".into(), "--width".into(), "200".into(), "--side-by-side".into()],
        vec!["--no-gitconfig".into(), "--width".into(), "400".into(), "--side-by-side".into(), "--wrap-max-lines".into(), "unlimited".into(), "--line-numbers".into()],
        vec!["--no-gitconfig".into(), "--width".into(), "60".into(), "--side-by-side".into(), "--wrap-max-lines".into(), "0".into()],
        vec!["--no-gitconfig".into(), "--width".into(), "60".into(), "--line-numbers".into(), "--keep-plus-minus-markers".into(), "--tabs".into(), "3".into(), "--max-line-length".into(), "90".into()],
        // the styles that make handlers return early
        vec!["--no-gitconfig".into(), "--width".into(), "120".into(), "--file-style".into(), "omit".into(), "--hunk-header-style".into(), "omit".into(), "--commit-decoration-style".into(), "none".into()],
        vec!["--no-gitconfig".into(), "--width".into(), "120".into(), "--raw".into()],
    ];
    // every configuration with ordinary lines and with over-long lines
    // every configuration with ordinary lines, with over-long lines, and with one file per hunk
    // one OS process per memory measurement: the regex engine hands its lazily built automata
    // from thread to thread through a pool, so in a process with other threads the thread that
    // happens to grow such a cache is charged for it; a process with a single thread is exact
    let mem: Vec<(Option<Violation>, serde_json::Value)> = par_map(if worddiff { 0 } else { mem_cfgs.len() * 6 }, &|j| {
        let i = j / 6;
        let (long, many, wrap, commits, giant) = (j % 6 == 1, j % 6 == 2, j % 6 == 3, j % 6 == 4, j % 6 == 5);
        let nn = (if long { mem_n / 10 } else if wrap { mem_n / 3 } else { mem_n }).max(50);
        let spec = json!({"mem_args": mem_cfgs[i], "mem_n": nn, "seed": seed, "mem_long_lines": long, "mem_many_files": many, "mem_wrap_shapes": wrap, "mem_many_commits": commits, "mem_giant_hunk": giant});
        let out = std::process::Command::new(std::env::current_exe().unwrap()).args(["C11-mem", &spec.to_string()]).output();
        match out {
            Ok(o) if o.status.success() => {
                let v: serde_json::Value = serde_json::from_slice(&o.stdout).unwrap_or(json!({}));
                let viol = if v["violation"].is_null() { None } else { Some(Violation::new("M-memory", v["violation"]["signature"].as_str().unwrap_or(""), v["violation"]["message"].as_str().unwrap_or("").to_string())) };
                (viol, v["info"].clone())
            }
            _ => {
                eprintln!("HARNESS-ERROR: memory measurement process failed (variant {})", j);
                (None, json!({"error": "process failed"}))
            }
        }
    });

    let known = load_known();
    let mut exit = 0;
    let mut reported: BTreeSet<String> = BTreeSet::new();
    let mut known_hit: BTreeMap<String, (String, u64)> = BTreeMap::new();
    for (i, v) in &first {
        if let Some(k) = known.matches("C11", v) {
            known_hit.entry(k.signature.clone()).or_insert((k.what.clone(), 0)).1 += 1;
            continue;
        }
        if reported.contains(&v.signature) || reported.len() >= 4 {
            continue;
        }
        reported.insert(v.signature.clone());
        // minimise: fewer lines, coarser schedule, no faults, fewer options — same oracle
        let mut case = c11::gen_case(seed, *i);
        if worddiff {
            c11::to_word_diff(&mut case);
        }
        let oracle = v.oracle.clone();
        let fails = |c: &c11::Case| c11::check_case(c).0.iter().any(|x| x.oracle == oracle);
        let mut budget = 300usize;
        let lines = case.lines.clone();
        let kept = simcore::gen::minimise_lines(lines, &mut budget, &mut |ls: &[simcore::gen::GLine]| {
            let mut c = case.clone();
            c.lines = ls.to_vec();
            fails(&c)
        });
        case.lines = kept;
        for simpler in [vec![], vec![1usize]] {
            let mut c = case.clone();
            c.rschedule = simpler;
            c.rdelays_ms = vec![];
            if budget > 0 && fails(&c) {
                case = c;
                break;
            }
        }
        {
            let mut c = case.clone();
            c.wplan = vec![];
            if fails(&c) {
                case = c;
            }
        }
        let mut k = 0;
        while k < case.opts.args.len() && budget > 0 {
            let a = case.opts.args[k].clone();
            if !a.starts_with("--") || a == "--no-gitconfig" || a == "--width" || a == "--line-buffer-size" {
                k += 1;
                continue;
            }
            let takes = k + 1 < case.opts.args.len() && !case.opts.args[k + 1].starts_with("--");
            let mut c = case.clone();
            c.opts.args.remove(k);
            if takes {
                c.opts.args.remove(k);
            }
            budget -= 1;
            if fails(&c) {
                case = c;
            } else {
                k += 1;
            }
        }
        let mv = c11::check_case(&case).0.into_iter().find(|x| x.oracle == oracle).unwrap_or_else(|| v.clone());
        let path = write_replay("C11", &format!("{}-{}", v.oracle, reported.len()), &json!({"property": "C11", "engine": "E2-inproc", "seed": seed, "oracle": mv.oracle, "signature": mv.signature, "message": mv.message, "case": case, "input": String::from_utf8_lossy(&simcore::gen::to_bytes(&case.lines))}));
        println!("VIOLATION property=C11 replay={}", path.display());
        println!("  oracle={} {}", mv.oracle, mv.message);
        exit = 1;
    }
    let mut mem_samples = Vec::new();
    for (j, (v, info)) in mem.iter().enumerate() {
        let i = j / 6;
        mem_samples.push(info.clone());
        if let Some(x) = v {
            if let Some(k) = known.matches("C11", x) {
                known_hit.entry(k.signature.clone()).or_insert((k.what.clone(), 0)).1 += 1;
                continue;
            }
            let path = write_replay("C11", &format!("M-memory-{}", j), &json!({"property": "C11", "engine": "E2-inproc", "seed": seed, "oracle": "M-memory", "signature": x.signature, "message": x.message, "mem_args": mem_cfgs[i], "mem_n": if j % 6 == 1 { (mem_n / 10).max(50) } else if j % 6 == 3 { (mem_n / 3).max(50) } else { mem_n }, "mem_long_lines": j % 6 == 1, "mem_many_files": j % 6 == 2, "mem_wrap_shapes": j % 6 == 3, "mem_many_commits": j % 6 == 4, "mem_giant_hunk": j % 6 == 5}));
            println!("VIOLATION property=C11 replay={}", path.display());
            println!("  oracle={} {}", x.oracle, x.message);
            exit = 1;
        }
    }
    for (sigk, (what, nn)) in &known_hit {
        println!("KNOWN-FINDING: property=C11 {} [{}] ({} cases)", what, sigk, nn);
    }
    // second pass: word-diff input needs another calling process, hence another OS process
    let mut wd_counters: Option<serde_json::Value> = None;
    if !worddiff {
        let part = format!("{}.worddiff", evidence_path("C11"));
        let st = std::process::Command::new(std::env::current_exe().unwrap()).args(["C11", tier]).env("DELTASIM_CALLER", "worddiff").env("EVIDENCE_PART", &part).status();
        match st.map(|s| s.code()) {
            Ok(Some(0)) => {}
            Ok(Some(1)) => exit = 1,
            _ => {
                eprintln!("HARNESS-ERROR: word-diff pass failed to run");
                if exit == 0 {
                    exit = 2;
                }
            }
        }
        wd_counters = std::fs::read_to_string(&part).ok().and_then(|t| serde_json::from_str::<serde_json::Value>(&t).ok()).map(|v| v["coverage"]["counters"].clone());
        let _ = std::fs::remove_file(&part);
    }
    let mut ev = Evidence::new("C11", tier, seed, "exploration");
    ev.evaluations = counters.get("delta_runs").copied().unwrap_or(0);
    ev.distinct_nontrivial = results.iter().filter(|(_, st)| st.lag.in_hunk_points > 0).count() as u64;
    ev.rule = "one evaluation = one in-process execution of delta::delta() on SimReader/SimWriter; a case = generated diff + options + delivery schedule + consumer plan, run (a) in one chunk, (b) one line per read (every line boundary is a pause point), (c) under the sampled schedule with EINTR/short writes, (d) on 3 sampled input prefixes followed by EOF. distinct_nontrivial = cases (distinct seeds) with at least one quiescence point inside a hunk, i.e. where oracle L had something to decide.".into();
    ev.counters = counters;
    ev.counters.insert("cases".into(), n as u64);
    ev.counters.insert("distinct_mode_buffer_flavor_shapes".into(), shapes.len() as u64);
    ev.violations = reported.len() as u64;
    ev.samples = (0..3).map(|i| {
        let c = c11::gen_case(seed, i * 7);
        json!({"args": c.opts.args, "rschedule": c.rschedule, "wplan": c.wplan, "input_first_lines": c.lines.iter().take(12).map(|l| l.text.clone()).collect::<Vec<_>>()})
    }).collect();
    ev.extra.insert("memory_oracle".into(), json!(mem_samples));
    if let Some(w) = wd_counters {
        ev.evaluations += w["delta_runs"].as_u64().unwrap_or(0);
        ev.extra.insert("word_diff_pass_counters".into(), w);
    }
    ev.extra.insert("engine".into(), json!("E2-inproc: delta's sources linked as a library via a shadow manifest (cfg dandavison_delta_verif), delta::delta() driven through its BufRead and Write parameters"));
    ev.extra.insert("real_vs_stub".into(), json!({"real": ["option parsing, Config::from, StateMachine::consume and everything below it"], "stub": ["reader (SimReader) and writer (SimWriter) are the simulator; calling process fixed to a launched `git diff`"]}));
    ev.extra.insert("simulated_steps".into(), json!({"quiescence_points": ev.counters.get("quiescence_points_checked"), "simulated_time_covered_s": ev.counters.get("simulated_time_covered_ms").copied().unwrap_or(0) / 1000}));
    ev.assumptions = vec![
        "bound of oracle L is per side: at most line-buffer-size+1 removed and line-buffer-size+1 added lines of the open run may be unwritten".into(),
        "merge-conflict regions are excluded (held until their end marker by design)".into(),
        "main.rs (stdin locking, pager pipe) is outside E2; the E1 part of this check covers it".into(),
    ];
    ev.wall_s = t0.elapsed().as_secs_f64();
    if let Err(e) = ev.write(&evidence_path("C11")) {
        eprintln!("HARNESS-ERROR: cannot write evidence: {}", e);
        return 2;
    }
    // reach probes
    for probe in ["quiescence_points_inside_hunk", "points_with_held_lines_exactly_at_bound", "points_in_run_longer_than_bound.minus", "points_in_run_longer_than_bound.plus", "fault_fired.read_eintr", "fault_fired.write_eintr", "fault_fired.short_write", "fault_fired.producer_pause_clock_advance", "chunk_boundary_inside_utf8_sequence"] {
        if !worddiff && ev.counters.get(probe).copied().unwrap_or(0) == 0 && exit == 0 {
            eprintln!("HARNESS-ERROR: probe {} stuck at zero", probe);
            exit = 2;
        }
    }
    println!("C11 {} (E2{}): {} cases, {} delta runs, {} quiescence points checked ({} inside hunks), max held -{} +{}, {} violations, {:.1}s", tier, if worddiff { ", word-diff pass" } else { "" }, n, ev.evaluations, ev.counters["quiescence_points_checked"], ev.counters["quiescence_points_inside_hunk"], ev.counters["max_held_minus"], ev.counters["max_held_plus"], reported.len(), ev.wall_s);
    exit
}

fn main() {
    let args: Vec<String> = std::env::args().collect();
    quiet_panics();
    // The calling process is process-global and `calling_process()` blocks until it is known:
    // publish a launched command once (what `delta git diff` does before creating its Config).
    // DELTASIM_CALLER=worddiff: second pass of C11 in a process of its own, whose (process-global)
    // calling process is `git diff --word-diff`.
    if std::env::var("DELTASIM_CALLER").as_deref() == Ok("worddiff") {
        dh::set_calling_process(&["git".to_string(), "diff".to_string(), "--word-diff".to_string()]);
    } else {
        dh::set_calling_process(&["git".to_string(), "diff".to_string()]);
    }
    let tier = args.get(2).map(|s| s.as_str()).unwrap_or("quick").to_string();
    let replay = args.iter().position(|a| a == "--replay").and_then(|i| args.get(i + 1)).cloned();
    let seed = verif_seed();
    let code = match args.get(1).map(|s| s.as_str()) {
        Some("C11-mem") => {
            // one memory measurement (oracle M), alone in this process; result as JSON on stdout
            let v: serde_json::Value = args.get(2).and_then(|t| serde_json::from_str(t).ok()).unwrap_or(json!({}));
            let margs: Vec<String> = serde_json::from_value(v["mem_args"].clone()).unwrap_or_default();
            let (viol, info) = c11::memory_check(&margs, v["mem_n"].as_u64().unwrap_or(300) as usize, v["seed"].as_u64().unwrap_or(1), v["mem_long_lines"].as_bool().unwrap_or(false), v["mem_many_files"].as_bool().unwrap_or(false), v["mem_wrap_shapes"].as_bool().unwrap_or(false), v["mem_many_commits"].as_bool().unwrap_or(false), v["mem_giant_hunk"].as_bool().unwrap_or(false));
            println!("{}", json!({"violation": viol.map(|x| json!({"signature": x.signature, "message": x.message})), "info": info}));
            0
        }
        Some("hashtest") => {
            // same seed -> same HashMap iteration order; different seeds -> different orders
            let order = |seed: u64| -> String {
                sim::on_fresh_thread(seed, || {
                    let mut m = std::collections::HashMap::new();
                    for w in ["color-only", "diff-highlight", "diff-so-fancy", "hyperlinks", "line-numbers", "navigate", "raw", "side-by-side"] {
                        m.insert(w, 1);
                    }
                    let calls = sim::random_calls();
                    format!("{:?} (getrandom calls seen: {})", m.keys().collect::<Vec<_>>(), calls)
                })
            };
            let a1 = order(1);
            let a2 = order(1);
            let distinct: BTreeSet<String> = (0..64).map(order).collect();
            println!("seed 1: {}\nseed 1 again: {}\ndistinct orders over 64 seeds: {}", a1, a2, distinct.len());
            if a1 == a2 && distinct.len() > 16 {
                0
            } else {
                eprintln!("HARNESS-ERROR: the harness does not own the hash keys");
                2
            }
        }
        Some("clocktest") => {
            // the simulator owns std's clocks
            sim::sim_clock_begin();
            let t0 = std::time::Instant::now();
            let w0 = std::time::SystemTime::now();
            sim::sim_clock_advance_ms(5000);
            let dt = t0.elapsed();
            let dw = w0.elapsed().unwrap_or_default();
            sim::sim_clock_end();
            println!("monotonic advanced by {:?}, wall clock by {:?}", dt, dw);
            if dt.as_millis() >= 5000 && dt.as_millis() < 5010 && dw.as_millis() == 5000 {
                0
            } else {
                eprintln!("HARNESS-ERROR: the simulated clock is not in effect");
                2
            }
        }
        Some("C11") => main_c11(&tier, seed, replay.as_deref()),
        Some("C10") => c10::main_c10(&tier, seed, replay.as_deref()),
        Some("C13") => c13::main_c13(&tier, seed, replay.as_deref()),
        Some("C18") => c18::main_c18(&tier, seed, replay.as_deref()),
        _ => {
            eprintln!("usage: deltasim-inproc C11|C10|C18 quick|thorough [--replay file]");
            2
        }
    };
    std::process::exit(code);
}
