//! C10, first clause — file sections render independently of their neighbours (engine E2):
//! out(S1 ++ ... ++ Sn) == out(S1) ++ ... ++ out(Sn).
//!
//! There is no schedule or fault in this clause; it is evaluated as a generation-only secondary
//! oracle (see DESIGN.md §6) next to the hash-seed determinism check that E1 runs.

use crate::sim::*;
use serde::{Deserialize, Serialize};
use serde_json::json;
use simcore::evidence::Evidence;
use simcore::gen::{self, GLine, GenParams, SectionKind, ALL_SECTION_KINDS_C10};
use simcore::report::*;
use simcore::rng::{mix, tag, Rng};
use std::collections::{BTreeMap, BTreeSet};
use std::rc::Rc;
use std::time::Instant;

pub const MODES: &[&[&str]] = &[
    &[],
    &["--side-by-side"],
    &["--line-numbers"],
    &["--color-only"],
    &["--side-by-side", "--line-buffer-size", "2"],
    &["--navigate", "--hyperlinks"],
    &["--diff-so-fancy"],
    &["--line-numbers", "--hunk-header-style", "omit", "--file-style", "omit"],
    &["--raw"],
    &["--diff-highlight"],
    &["--file-style", "raw", "--hunk-header-style", "raw", "--line-numbers"],
    &["--color-only", "--side-by-side"],
    &["--keep-plus-minus-markers", "--hunk-header-style", "file line-number syntax", "--relative-paths"],
    // decorations sized to their text, panels sized to the terminal: widths computed from content
    &["--width", "variable", "--file-decoration-style", "box", "--hunk-header-decoration-style", "box ul"],
    &["--width", "variable", "--side-by-side", "--line-numbers-left-format", "{nm}|", "--line-numbers-right-format", "{np}|"],
    &["--line-numbers", "--line-numbers-left-format", "{nm}:", "--line-numbers-right-format", "{np}:", "--tabs", "2"],
    // links around file names, commit hashes and every line number
    &["--hyperlinks", "--line-numbers", "--hyperlinks-file-link-format", "file://{path}#L{line}"],
    &["--hyperlinks", "--side-by-side", "--hyperlinks-commit-link-format", "https://example.org/c/{commit}"],
];

/// mode numbers from here on: options drawn from the seeded swarm instead of MODES
pub const SWARM: usize = 1000;

#[derive(Clone, Debug, Serialize, Deserialize)]
pub struct Case {
    pub args: Vec<String>,
    pub kinds: Vec<SectionKind>,
    pub sections: Vec<Vec<GLine>>,
}

pub fn gen_case(seed: u64, idx: usize, kinds: &[SectionKind], mode: usize) -> Case {
    gen_case_named(seed, idx, kinds, mode, &[])
}

/// `names`: when not empty, the path of the i-th section (coverage floor over pairs of file-name classes).
pub fn gen_case_named(seed: u64, idx: usize, kinds: &[SectionKind], mode: usize, names: &[&str]) -> Case {
    gen_case_full(seed, idx, kinds, mode, names, false)
}

/// `wide_first`: the first section has line numbers of 5-7 digits, the others small ones.
pub fn gen_case_full(seed: u64, idx: usize, kinds: &[SectionKind], mode: usize, names: &[&str], wide_first: bool) -> Case {
    gen_case_paths(seed, idx, kinds, mode, names, wide_first, None)
}

/// `path_cell`: how the paths are written (GenParams::path_style; 9 = `--no-prefix` with directories
/// named like git's one-letter prefixes); None = drawn, one case in five.
pub fn gen_case_paths(seed: u64, idx: usize, kinds: &[SectionKind], mode: usize, names: &[&str], wide_first: bool, path_cell: Option<u8>) -> Case {
    let mut rng = Rng::new(mix(seed, &[tag("C10"), tag("concat"), idx as u64]));
    // a stream of its own: the cases that do not use it stay what they were
    let mut prng = Rng::new(mix(seed, &[tag("C10"), tag("paths"), idx as u64]));
    let path_style = match path_cell {
        Some(c) => c,
        None if names.is_empty() && prng.chance(1, 5) => *prng.pick(&[1u8, 1, 1, 2, 3, 4, 5, 9]),
        None => 0,
    };
    // one case in six is plain `diff -u` output (every kind is then a modified-like section)
    let flavor = if names.is_empty() && !wide_first && rng.chance(1, 6) { gen::Flavor::DiffU } else { gen::Flavor::Git };
    let flavor = if path_cell.is_some() { gen::Flavor::Git } else { flavor };
    let gp = GenParams { flavor, sections: vec![], max_hunks: rng.range(1, 3), pivot: *rng.pick(&[1usize, 2, 3]), max_run: 6, with_commit_preamble: false, multibyte: rng.chance(1, 4), no_newline_marker: rng.chance(1, 2), similar_pairs: rng.chance(1, 2), no_index_lines: rng.chance(1, 4), no_prefix: rng.chance(1, 6), line_number_class: 0, long_line_pct: *rng.pick(&[0u8, 0, 8, 50]), path_style };
    let gp = if path_style == 9 { GenParams { no_prefix: true, ..gp } } else if path_cell.is_some() { GenParams { no_prefix: false, ..gp } } else { gp };
    let mut sections = Vec::new();
    let mut tok = 0;
    // one time in three all sections are about the same path (`git log -p -- path`, a file added in
    // one commit and changed in the next, ...)
    let shared: Option<String> = if rng.chance(1, 3) && path_cell.is_none() { Some(format!("{}shared_{}.{}", rng.pick(&["", "src/", "a/b/"]), rng.below(100), rng.pick(&["rs", "png", "txt", "sh"]))) } else { None };
    // one case in five is a `git log -p` stream: every file diff is preceded by a commit header
    // (never for plain `diff -u` output: no tool produces commit headers followed by such sections)
    let log_stream = rng.chance(1, 5) && flavor != gen::Flavor::DiffU;
    let with_stat = log_stream && rng.chance(1, 3);
    for (i, k) in kinds.iter().enumerate() {
        let forced = if names.is_empty() { shared.clone() } else { Some(names[i % names.len()].to_string()) };
        let mut gp = gp.clone();
        if wide_first {
            gp.line_number_class = if i == 0 { 1 } else { 2 };
        }
        let s = if log_stream { gen::generate_commit_unit(&mut rng, &gp, *k, i, tok, forced, with_stat) } else { gen::generate_section_named(&mut rng, &gp, *k, i, tok, forced) };
        tok += s.iter().filter(|l| l.token.is_some()).count();
        sections.push(s);
    }
    // one case in four arrives the way git sends it to a pager: coloured
    if rng.chance(1, 4) {
        let mut crng = Rng::new(mix(seed, &[tag("C10"), tag("colors"), idx as u64]));
        for s in sections.iter_mut() {
            let _ = gen::add_git_colors(s, &mut crng);
        }
    }
    let mut args: Vec<String> = vec!["--no-gitconfig".into(), "--width".into(), "120".into()];
    if mode >= SWARM {
        // option swarm: the same seeded option sets the streaming check (C11) draws
        args = gen::random_delta_opts(&mut rng).args;
    } else {
        for a in MODES[mode % MODES.len()] {
            args.push((*a).into());
        }
    }
    // a mode may bring its own --width: the later one replaces the default
    if args.iter().filter(|a| *a == "--width").count() > 1 {
        let first = args.iter().position(|a| a == "--width").unwrap();
        args.drain(first..first + 2);
    }
    if names.is_empty() && mode < SWARM && rng.chance(1, 2) {
        args.push("--syntax-theme".into());
        args.push("none".into());
    }
    Case { args, kinds: kinds.to_vec(), sections }
}

fn render(config: &delta::verif_hooks::Config, data: Vec<u8>) -> Result<Vec<u8>, String> {
    let r = run_delta(RunParams { config, data: Rc::new(data), rschedule: vec![], rdelays_ms: vec![], wplan: vec![], fail_at: None, fail_kind: std::io::ErrorKind::BrokenPipe, keep_output: true, record_quiescence: false });
    match r.result {
        Ok(Ok(())) => Ok(r.shared.out),
        Ok(Err(e)) => Err(format!("error: {}", e)),
        Err(p) => Err(format!("panic: {}", p.lines().next().unwrap_or(""))),
    }
}

pub fn render_whole(case: &Case) -> Option<Vec<u8>> {
    let config = make_config(&case.args).ok()?;
    let mut whole_in = Vec::new();
    for s in &case.sections {
        whole_in.extend_from_slice(&gen::to_bytes(s));
    }
    render(&config, whole_in).ok()
}

pub fn check_case(case: &Case) -> (Option<Violation>, u64) {
    let (v, r, _) = check_case_full(case);
    (v, r)
}

pub fn check_case_full(case: &Case) -> (Option<Violation>, u64, Option<Vec<u8>>) {
    let config = match make_config(&case.args) {
        Ok(c) => c,
        Err(_) => return (None, 0, None),
    };
    let mut whole_in = Vec::new();
    let mut parts = Vec::new();
    let mut runs = 0;
    for s in &case.sections {
        let b = gen::to_bytes(s);
        whole_in.extend_from_slice(&b);
        match render(&config, b) {
            Ok(o) => parts.push(o),
            Err(_) => return (None, runs, None),
        }
        runs += 1;
    }
    let whole = match render(&config, whole_in) {
        Ok(o) => o,
        Err(_) => return (None, runs, None),
    };
    runs += 1;
    let concat: Vec<u8> = parts.concat();
    if whole != concat {
        // locate the first differing section boundary
        let mut off = 0;
        let mut where_ = 0;
        for (i, p) in parts.iter().enumerate() {
            if whole.len() < off + p.len() || whole[off..off + p.len()] != p[..] {
                where_ = i;
                break;
            }
            off += p.len();
            where_ = i + 1;
        }
        let prev = if where_ > 0 { format!("{:?}", case.kinds[where_ - 1]) } else { "start".into() };
        let cur = case.kinds.get(where_).map(|k| format!("{:?}", k)).unwrap_or("end".into());
        let sig = format!("concat:{}->{}", prev, cur);
        let strip = |b: &[u8]| String::from_utf8_lossy(&simcore::text::strip_ansi(b)).to_string();
        let w = strip(&whole);
        let c = strip(&concat);
        let dl = w.lines().zip(c.lines()).position(|(a, b)| a != b).unwrap_or(0);
        let ctx = |s: &str| s.lines().skip(dl.saturating_sub(2)).take(5).collect::<Vec<_>>().join(" | ");
        return (
            Some(Violation::new(
                "S-sections-independent",
                &sig,
                format!("output for sections {:?} differs from the concatenation of the outputs for each section alone; first difference in or after section {} ({} after {}), args {:?}. together: [{}]  separately: [{}]", case.kinds, where_, cur, prev, case.args, ctx(&w), ctx(&c)),
            )),
            runs,
            Some(whole),
        );
    }
    (None, runs, Some(whole))
}

pub fn main_c10(tier: &str, seed: u64, replay: Option<&str>) -> i32 {
    let t0 = Instant::now();
    if let Some(path) = replay {
        let v: serde_json::Value = match std::fs::read_to_string(path).ok().and_then(|t| serde_json::from_str(&t).ok()) {
            Some(v) => v,
            None => return 2,
        };
        let case: Case = serde_json::from_value(v["case"].clone()).unwrap();
        return match check_case(&case).0 {
            Some(x) => {
                println!("VIOLATION property=C10 replay={}", path);
                println!("  oracle={} {}", x.oracle, x.message);
                1
            }
            None => {
                println!("replay {}: no violation (property holds on this tree for this case)", path);
                0
            }
        };
    }
    // every ordered pair of section kinds under every mode; triples: all (thorough) or sampled (quick)
    let mut specs: Vec<(Vec<SectionKind>, usize)> = Vec::new();
    let mut name_cells: Vec<(Vec<SectionKind>, usize, Vec<&'static str>)> = Vec::new();
    // coverage floor over file-name classes: every ordered pair of names whose language is chosen in
    // different ways (whole name, extension, none), with highlighting on
    const NAMES: &[&str] = &["CMakeLists.txt", "notes.txt", "requirements.txt", "Cargo.lock", "yarn.lock", "Makefile", "Dockerfile", "nginx.conf", "app.conf", "src/x.rs", "y.py", "my file.txt", "na\u{ef}ve/\u{444}\u{430}\u{439}\u{43b}.py", "README"];
    for a in NAMES {
        for b in NAMES {
            for m in [0usize, 1] {
                name_cells.push((vec![SectionKind::Modified, SectionKind::ModifiedEndsChanged], m, vec![*a, *b]));
            }
        }
    }
    for a in ALL_SECTION_KINDS_C10 {
        for b in ALL_SECTION_KINDS_C10 {
            for m in 0..super::c10::MODES.len() {
                specs.push((vec![*a, *b], m));
            }
        }
    }
    let mut rng = Rng::new(mix(seed, &[tag("C10"), tag("specs")]));
    if tier == "thorough" {
        for rep in 0..3 {
            for a in ALL_SECTION_KINDS_C10 {
                for b in ALL_SECTION_KINDS_C10 {
                    for c in ALL_SECTION_KINDS_C10 {
                        specs.push((vec![*a, *b, *c], (rep * 3 + specs.len()) % MODES.len()));
                    }
                }
            }
        }
        for _ in 0..20000 {
            let n = rng.range(4, 6);
            specs.push(((0..n).map(|_| *rng.pick(ALL_SECTION_KINDS_C10)).collect(), rng.range(0, MODES.len() - 1)));
        }
    } else {
        for _ in 0..600 {
            let n = rng.range(3, 5);
            specs.push(((0..n).map(|_| *rng.pick(ALL_SECTION_KINDS_C10)).collect(), rng.range(0, MODES.len() - 1)));
        }
    }
    // option swarm: every ordered pair of kinds under sampled option sets (quick: 4 per pair), and
    // longer sequences
    let per_pair = if tier == "thorough" { 60 } else { 4 };
    for a in ALL_SECTION_KINDS_C10 {
        for b in ALL_SECTION_KINDS_C10 {
            for _ in 0..per_pair {
                specs.push((vec![*a, *b], SWARM));
            }
        }
    }
    for _ in 0..(if tier == "thorough" { 60000 } else { 1500 }) {
        let n = rng.range(3, 5);
        specs.push(((0..n).map(|_| *rng.pick(ALL_SECTION_KINDS_C10)).collect(), SWARM));
    }
    // coverage floor: a section with wide line numbers followed by one with narrow ones, about the
    // same path, with line numbers shown
    let wide_start = name_cells.len();
    for a in [SectionKind::Modified, SectionKind::Deleted, SectionKind::Added, SectionKind::ModifiedEndsChanged, SectionKind::RenamedChanged, SectionKind::ModeAndChange] {
        for b in [SectionKind::Modified, SectionKind::Deleted, SectionKind::Added, SectionKind::ModifiedEndsChanged] {
            for m in [1usize, 2, 4] {
                name_cells.push((vec![a, b], m, vec!["src/same.rs", "src/same.rs"]));
            }
        }
    }
    let n_plain = specs.len();
    for (k, m, _) in &name_cells {
        specs.push((k.clone(), *m));
    }
    // coverage floor over the ways git writes paths: every ordered pair of the kinds that name their
    // files in different header lines, with quoted paths / a TAB after paths with blanks (git's
    // default), mnemonic prefixes, and `--no-prefix` with directories named like a prefix letter;
    // half of the paths need careful parsing
    let n_named = specs.len();
    const PATH_KINDS: &[SectionKind] = &[SectionKind::Modified, SectionKind::ModifiedEndsChanged, SectionKind::Added, SectionKind::Deleted, SectionKind::RenamedPure, SectionKind::RenamedChanged, SectionKind::Copied, SectionKind::ModeOnly, SectionKind::ModeAndChange, SectionKind::Binary, SectionKind::RenamedBinary];
    let mut path_cells: Vec<u8> = Vec::new();
    for a in PATH_KINDS {
        for b in PATH_KINDS {
            for (j, cell) in [1u8, 1, 2, 3, 9, 9].iter().enumerate() {
                specs.push((vec![*a, *b], j % 2));
                path_cells.push(*cell);
            }
        }
    }
    let case_of = |i: usize| -> Case {
        if i < n_plain {
            gen_case(seed, i, &specs[i].0, specs[i].1)
        } else if i < n_named {
            gen_case_full(seed, i, &specs[i].0, specs[i].1, &name_cells[i - n_plain].2, i - n_plain >= wide_start)
        } else {
            gen_case_paths(seed, i, &specs[i].0, specs[i].1, &[], false, Some(path_cells[i - n_named]))
        }
    };
    let results = crate::par_map(specs.len(), &|i| {
        let case = case_of(i);
        let c2 = case.clone();
        // clause 1 under one hash seed ...
        let (v, runs, whole) = on_fresh_thread(mix(seed, &[tag("C10-hashA"), i as u64]), move || check_case_full(&case));
        if v.is_some() {
            return (v, runs);
        }
        // ... and clause 2 in process: the same input under different hash keys gives the same bytes
        let other = on_fresh_thread(mix(seed, &[tag("C10-hashB"), i as u64]), move || render_whole(&c2));
        if let (Some(a), Some(b)) = (&whole, &other) {
            if a != b {
                return (Some(Violation::new("R-deterministic", "det:e2:render", format!("the same sections {:?} with args {:?} rendered to different bytes under two hash-key seeds ({} vs {} bytes)", specs[i].0, case_of(i).args, a.len(), b.len()))), runs + 1);
            }
        }
        (None, runs + 1)
    });
    let known = load_known();
    let mut exit = 0;
    let mut reported: BTreeSet<String> = BTreeSet::new();
    let mut known_hit: BTreeMap<String, (String, u64)> = BTreeMap::new();
    let mut runs = 0u64;
    let mut pairs: BTreeSet<(String, String)> = BTreeSet::new();
    for (i, (v, r)) in results.iter().enumerate() {
        runs += r;
        for w in specs[i].0.windows(2) {
            pairs.insert((format!("{:?}", w[0]), format!("{:?}", w[1])));
        }
        if let Some(x) = v {
            if let Some(k) = known.matches("C10", x) {
                known_hit.entry(k.signature.clone()).or_insert((k.what.clone(), 0)).1 += 1;
                continue;
            }
            if reported.contains(&x.signature) || reported.len() >= 4 {
                continue;
            }
            reported.insert(x.signature.clone());
            // minimise: drop sections, then lines inside sections, keeping the same signature
            let mut case = case_of(i);
            let sigx = x.signature.clone();
            let fails = |c: &Case| check_case(c).0.map(|y| y.oracle == "S-sections-independent").unwrap_or(false);
            let _ = sigx;
            let mut changed = true;
            while changed && case.sections.len() > 2 {
                changed = false;
                for k in 0..case.sections.len() {
                    let mut c = case.clone();
                    c.sections.remove(k);
                    c.kinds.remove(k);
                    if fails(&c) {
                        case = c;
                        changed = true;
                        break;
                    }
                }
            }
            let mv = check_case(&case).0.unwrap_or_else(|| x.clone());
            let input: String = case.sections.iter().map(|s| String::from_utf8_lossy(&gen::to_bytes(s)).to_string()).collect::<Vec<_>>().join("");
            let path = write_replay("C10", &format!("S-{}", reported.len()), &json!({"property": "C10", "engine": "E2-inproc", "seed": seed, "oracle": mv.oracle, "signature": mv.signature, "message": mv.message, "case": case, "input": input}));
            println!("VIOLATION property=C10 replay={}", path.display());
            println!("  oracle={} {}", mv.oracle, mv.message);
            exit = 1;
        }
    }
    for (sigk, (what, nn)) in &known_hit {
        println!("KNOWN-FINDING: property=C10 {} [{}] ({} cases)", what, sigk, nn);
    }
    let mut ev = Evidence::new("C10", tier, seed, "exploration");
    ev.evaluations = runs;
    ev.distinct_nontrivial = specs.len() as u64;
    ev.rule = "clause 1 (generation only, no schedule/fault): one evaluation = one in-process delta() run; a case = a sequence of 2-6 git file sections of 12 kinds (every ordered pair of kinds under 13 option modes enumerated; triples enumerated in the thorough tier; longer sequences sampled), rendered together and one by one. distinct_nontrivial = distinct (kind sequence, mode, seed) cases, each with at least one section boundary.".into();
    ev.counters.insert("cases".into(), specs.len() as u64);
    ev.counters.insert("distinct_adjacent_kind_pairs".into(), pairs.len() as u64);
    ev.counters.insert("adjacent_kind_pairs_possible".into(), (ALL_SECTION_KINDS_C10.len() * ALL_SECTION_KINDS_C10.len()) as u64);
    ev.counters.insert("modes".into(), MODES.len() as u64);
    ev.violations = reported.len() as u64;
    ev.samples = (0..3).map(|i| json!({"kinds": specs[i * 101 % specs.len()].0, "args": case_of(i * 101 % specs.len()).args})).collect();
    ev.counters.insert("cases_with_sampled_option_sets".into(), specs.iter().filter(|s| s.1 >= SWARM).count() as u64);
    ev.extra.insert("engine".into(), json!("E2-inproc (delta::delta() in process)"));
    ev.wall_s = t0.elapsed().as_secs_f64();
    if let Err(e) = ev.write(&crate::evidence_path("C10")) {
        eprintln!("HARNESS-ERROR: cannot write evidence: {}", e);
        return 2;
    }
    println!("C10 {} (E2, clause 1): {} cases, {} delta runs, {} adjacent kind pairs, {} violations, {:.1}s", tier, specs.len(), runs, pairs.len(), reported.len(), ev.wall_s);
    exit
}
