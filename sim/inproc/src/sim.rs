//! E2: in-process simulator on the seams delta already has:
//! `delta(lines: ByteLines<I: BufRead>, writer: &mut dyn Write, &Config)`.
//!
//! `SimReader` owns the input delivery schedule (chunk sizes, `Interrupted`), `SimWriter` owns
//! the consumer (short writes, `Interrupted`, fatal error from the k-th call on).  Each
//! `fill_buf` on an empty buffer is a *quiescence point*: delta has finished all the work it can
//! do for the bytes delivered so far and is asking for more.

use delta::verif_hooks as dh;
use std::cell::{Cell, RefCell};
use std::io::{self, BufRead, Read, Write};
use std::rc::Rc;

// ---------------------------------------------------------------------------
// counting allocator: live heap bytes of the current thread

pub struct Counting;

thread_local! {
    static LIVE: Cell<isize> = const { Cell::new(0) };
}

unsafe impl std::alloc::GlobalAlloc for Counting {
    unsafe fn alloc(&self, l: std::alloc::Layout) -> *mut u8 {
        let p = std::alloc::System.alloc(l);
        if !p.is_null() {
            let _ = LIVE.try_with(|c| c.set(c.get() + l.size() as isize));
        }
        p
    }
    unsafe fn dealloc(&self, p: *mut u8, l: std::alloc::Layout) {
        std::alloc::System.dealloc(p, l);
        let _ = LIVE.try_with(|c| c.set(c.get() - l.size() as isize));
    }
    unsafe fn realloc(&self, p: *mut u8, l: std::alloc::Layout, new_size: usize) -> *mut u8 {
        let q = std::alloc::System.realloc(p, l, new_size);
        if !q.is_null() {
            let _ = LIVE.try_with(|c| c.set(c.get() + new_size as isize - l.size() as isize));
        }
        q
    }
}

// ---------------------------------------------------------------------------
// simulated clock: the executable's own `clock_gettime` wins over libc's for every reference from
// statically linked code (std::time::Instant / SystemTime in delta and its dependencies), so the
// simulator owns time without any change to delta.  Per thread: one simulation per worker.

thread_local! {
    static SIM_OWN_CLOCK: Cell<bool> = const { Cell::new(false) };
    static SIM_ELAPSED_NS: Cell<i64> = const { Cell::new(0) };
    static SIM_TICKS: Cell<i64> = const { Cell::new(0) };
    static SIM_CLOCK_READS: Cell<u64> = const { Cell::new(0) };
}

pub const SIM_WALL_BASE: i64 = 1_700_000_000;

#[no_mangle]
pub unsafe extern "C" fn clock_gettime(clk: libc::clockid_t, ts: *mut libc::timespec) -> libc::c_int {
    let own = SIM_OWN_CLOCK.try_with(|c| c.get()).unwrap_or(false);
    if own && !ts.is_null() {
        let e = SIM_ELAPSED_NS.with(|c| c.get());
        let _ = SIM_CLOCK_READS.try_with(|c| c.set(c.get() + 1));
        match clk {
            libc::CLOCK_MONOTONIC | libc::CLOCK_MONOTONIC_COARSE | libc::CLOCK_MONOTONIC_RAW | libc::CLOCK_BOOTTIME => {
                let t = SIM_TICKS.with(|c| {
                    c.set(c.get() + 1);
                    c.get()
                });
                let v = 1000i64 * 1_000_000_000 + e + 1000 * t;
                (*ts).tv_sec = v / 1_000_000_000;
                (*ts).tv_nsec = v % 1_000_000_000;
                return 0;
            }
            libc::CLOCK_REALTIME | libc::CLOCK_REALTIME_COARSE => {
                (*ts).tv_sec = SIM_WALL_BASE + e / 1_000_000_000;
                (*ts).tv_nsec = e % 1_000_000_000;
                return 0;
            }
            _ => {}
        }
    }
    libc::syscall(libc::SYS_clock_gettime, clk, ts) as libc::c_int
}

pub fn sim_clock_begin() {
    SIM_OWN_CLOCK.with(|c| c.set(true));
    SIM_ELAPSED_NS.with(|c| c.set(0));
    SIM_TICKS.with(|c| c.set(0));
}
pub fn sim_clock_end() {
    SIM_OWN_CLOCK.with(|c| c.set(false));
}
pub fn sim_clock_advance_ms(ms: u64) {
    SIM_ELAPSED_NS.with(|c| c.set(c.get() + ms as i64 * 1_000_000));
}
pub fn sim_clock_reads() -> u64 {
    SIM_CLOCK_READS.with(|c| c.get())
}

// ---------------------------------------------------------------------------
// randomness: std draws the keys of every RandomState from getrandom(2) once per thread.  The
// executable's own `getrandom` takes precedence, so a case run on a fresh thread gets hash keys
// that are a function of the case's seed alone.

thread_local! {
    static RAND_OWN: Cell<bool> = const { Cell::new(false) };
    static RAND_STATE: Cell<u64> = const { Cell::new(0) };
    static RAND_CALLS: Cell<u64> = const { Cell::new(0) };
}

#[no_mangle]
pub unsafe extern "C" fn getrandom(buf: *mut libc::c_void, len: libc::size_t, flags: libc::c_uint) -> libc::ssize_t {
    let own = RAND_OWN.try_with(|c| c.get()).unwrap_or(false);
    if !own {
        return libc::syscall(libc::SYS_getrandom, buf, len, flags) as libc::ssize_t;
    }
    let _ = RAND_CALLS.try_with(|c| c.set(c.get() + 1));
    let p = buf as *mut u8;
    let mut st = RAND_STATE.with(|c| c.get());
    let mut i = 0;
    while i < len {
        let v = simcore::rng::splitmix64(&mut st);
        for b in 0..8 {
            if i < len {
                *p.add(i) = (v >> (8 * b)) as u8;
                i += 1;
            }
        }
    }
    RAND_STATE.with(|c| c.set(st));
    len as libc::ssize_t
}

/// Make this thread's hash keys a function of `seed` (call first thing on a fresh thread).
pub fn own_randomness(seed: u64) {
    RAND_OWN.with(|c| c.set(true));
    RAND_STATE.with(|c| c.set(seed.wrapping_mul(0x9e3779b97f4a7c15) ^ 0x5555));
}

pub fn random_calls() -> u64 {
    RAND_CALLS.with(|c| c.get())
}

/// Run `f` on a fresh thread whose hash keys derive from `seed`.
pub fn on_fresh_thread<R: Send + 'static>(seed: u64, f: impl FnOnce() -> R + Send + 'static) -> R {
    std::thread::Builder::new()
        .stack_size(32 << 20)
        .spawn(move || {
            own_randomness(seed);
            f()
        })
        .expect("spawn")
        .join()
        .expect("case thread panicked")
}

pub fn live_heap() -> isize {
    LIVE.with(|c| c.get())
}

// ---------------------------------------------------------------------------

#[derive(Clone, Debug, Default)]
pub struct Quiescence {
    /// bytes delivered to delta so far
    pub delivered: usize,
    /// bytes the consumer has accepted so far
    pub written: usize,
    pub heap: isize,
}

#[derive(Default)]
pub struct Shared {
    pub out: Vec<u8>,
    pub keep_output: bool,
    pub written: usize,
    pub write_calls: usize,
    pub write_attempts: usize,
    pub quiescence: Vec<Quiescence>,
    pub record_quiescence: bool,
    pub eintr_reads: usize,
    pub eintr_writes: usize,
    pub short_writes: usize,
    pub failed_at: Option<usize>,
    pub writes_after_failure: usize,
    pub reads_after_failure: usize,
    pub flushes: usize,
    pub clock_advances: usize,
    pub clock_advanced_ms: u64,
    pub would_block_reads: usize,
    pub would_block_at: Option<usize>,
}

pub type SharedRef = Rc<RefCell<Shared>>;

/// In a delivery schedule: the reader reports `WouldBlock` once (stdin is non-blocking and the
/// producer has nothing yet), then carries on with the next entry.
pub const WOULD_BLOCK: usize = usize::MAX - 7;

/// Delivery schedule: cyclic list of chunk sizes; 0 = `Interrupted` before the next delivery.
pub struct SimReader {
    data: Rc<Vec<u8>>,
    pos: usize,
    buf_start: usize,
    buf_end: usize,
    schedule: Vec<usize>,
    /// simulated pause of the producer (ms) before each delivery, cyclic
    delays_ms: Vec<u64>,
    step: usize,
    dstep: usize,
    shared: SharedRef,
}

impl SimReader {
    pub fn new(data: Rc<Vec<u8>>, schedule: Vec<usize>, delays_ms: Vec<u64>, shared: SharedRef) -> Self {
        SimReader { data, pos: 0, buf_start: 0, buf_end: 0, schedule, delays_ms, step: 0, dstep: 0, shared }
    }
}

impl Read for SimReader {
    fn read(&mut self, out: &mut [u8]) -> io::Result<usize> {
        let n = {
            let b = self.fill_buf()?;
            let n = b.len().min(out.len());
            out[..n].copy_from_slice(&b[..n]);
            n
        };
        self.consume(n);
        Ok(n)
    }
}

impl BufRead for SimReader {
    fn fill_buf(&mut self) -> io::Result<&[u8]> {
        if self.buf_start == self.buf_end {
            // quiescence point
            {
                let mut sh = self.shared.borrow_mut();
                if sh.failed_at.is_some() {
                    sh.reads_after_failure += 1;
                }
                if sh.record_quiescence {
                    let q = Quiescence { delivered: self.pos, written: sh.written, heap: live_heap() };
                    sh.quiescence.push(q);
                }
            }
            if !self.delays_ms.is_empty() {
                let d = self.delays_ms[self.dstep % self.delays_ms.len()];
                self.dstep += 1;
                if d > 0 {
                    sim_clock_advance_ms(d);
                    let mut sh = self.shared.borrow_mut();
                    sh.clock_advances += 1;
                    sh.clock_advanced_ms += d;
                }
            }
            if self.pos >= self.data.len() {
                return Ok(&[]);
            }
            let c = if self.schedule.is_empty() {
                usize::MAX
            } else {
                let c = self.schedule[self.step % self.schedule.len()];
                self.step += 1;
                c
            };
            if c == 0 {
                self.shared.borrow_mut().eintr_reads += 1;
                return Err(io::Error::new(io::ErrorKind::Interrupted, "simulated EINTR"));
            }
            if c == WOULD_BLOCK {
                let mut sh = self.shared.borrow_mut();
                sh.would_block_reads += 1;
                sh.would_block_at = Some(self.pos);
                return Err(io::Error::new(io::ErrorKind::WouldBlock, "simulated EAGAIN"));
            }
            let n = c.min(self.data.len() - self.pos);
            self.buf_start = self.pos;
            self.buf_end = self.pos + n;
            self.pos += n;
        }
        Ok(&self.data[self.buf_start..self.buf_end])
    }
    fn consume(&mut self, amt: usize) {
        self.buf_start = (self.buf_start + amt).min(self.buf_end);
    }
}

/// Consumer plan: cyclic per write call: -1 accept all, 0 `Interrupted`, n>0 accept at most n.
/// From attempt `fail_at` on every write fails with `fail_kind`.
pub struct SimWriter {
    plan: Vec<i64>,
    fail_at: Option<usize>,
    fail_kind: io::ErrorKind,
    shared: SharedRef,
}

impl SimWriter {
    pub fn new(plan: Vec<i64>, fail_at: Option<usize>, fail_kind: io::ErrorKind, shared: SharedRef) -> Self {
        SimWriter { plan, fail_at, fail_kind, shared }
    }
}

impl Write for SimWriter {
    fn write(&mut self, buf: &[u8]) -> io::Result<usize> {
        let mut sh = self.shared.borrow_mut();
        let call = sh.write_calls;
        sh.write_calls += 1;
        let p = if self.plan.is_empty() { -1 } else { self.plan[call % self.plan.len()] };
        if p == 0 && sh.failed_at.is_none() {
            sh.eintr_writes += 1;
            return Err(io::Error::new(io::ErrorKind::Interrupted, "simulated EINTR"));
        }
        let attempt = sh.write_attempts;
        sh.write_attempts += 1;
        if let Some(k) = self.fail_at {
            if attempt >= k {
                if sh.failed_at.is_none() {
                    sh.failed_at = Some(attempt);
                } else {
                    sh.writes_after_failure += 1;
                }
                return Err(io::Error::new(self.fail_kind, "simulated consumer failure"));
            }
        }
        let n = if p > 0 && (p as usize) < buf.len() {
            sh.short_writes += 1;
            p as usize
        } else {
            buf.len()
        };
        if sh.keep_output {
            sh.out.extend_from_slice(&buf[..n]);
        }
        sh.written += n;
        Ok(n)
    }
    fn flush(&mut self) -> io::Result<()> {
        self.shared.borrow_mut().flushes += 1;
        Ok(())
    }
}

// ---------------------------------------------------------------------------

pub struct RunOutcome {
    pub result: Result<io::Result<()>, String>,
    pub shared: Shared,
}

pub fn make_config(args: &[String]) -> Result<dh::Config, String> {
    let mut v: Vec<std::ffi::OsString> = vec!["delta".into()];
    for a in args {
        v.push(a.into());
    }
    let r = std::panic::catch_unwind(std::panic::AssertUnwindSafe(|| {
        // a working directory (it need not exist): without one delta cannot make paths absolute and
        // writes no file links at all
        let mut env = dh::DeltaEnv::default();
        env.current_dir = Some(std::path::PathBuf::from("/sim/work"));
        env.hostname = Some("simhost".to_string());
        let assets = dh::load_highlighting_assets();
        let (_call, opt) = dh::Opt::from_args_and_git_config(v, &env, assets);
        dh::Config::from(opt.expect("Opt"))
    }));
    r.map_err(|e| e.downcast_ref::<String>().cloned().or_else(|| e.downcast_ref::<&str>().map(|s| s.to_string())).unwrap_or_else(|| "panic".into()))
}

pub struct RunParams<'a> {
    pub config: &'a dh::Config,
    pub data: Rc<Vec<u8>>,
    pub rschedule: Vec<usize>,
    pub rdelays_ms: Vec<u64>,
    pub wplan: Vec<i64>,
    pub fail_at: Option<usize>,
    pub fail_kind: io::ErrorKind,
    pub keep_output: bool,
    pub record_quiescence: bool,
}

pub fn run_delta(p: RunParams) -> RunOutcome {
    use bytelines::ByteLinesReader;
    let shared: SharedRef = Rc::new(RefCell::new(Shared { keep_output: p.keep_output, record_quiescence: p.record_quiescence, ..Default::default() }));
    let reader = SimReader::new(p.data.clone(), p.rschedule, p.rdelays_ms, shared.clone());
    sim_clock_begin();
    let mut writer = SimWriter::new(p.wplan, p.fail_at, p.fail_kind, shared.clone());
    let cfg = p.config;
    let r = std::panic::catch_unwind(std::panic::AssertUnwindSafe(|| dh::delta(reader.byte_lines(), &mut writer, cfg)));
    sim_clock_end();
    let result = r.map_err(|e| e.downcast_ref::<String>().cloned().or_else(|| e.downcast_ref::<&str>().map(|s| s.to_string())).unwrap_or_else(|| "panic".into()));
    drop(writer);
    let sh = match Rc::try_unwrap(shared) {
        Ok(c) => c.into_inner(),
        Err(rc) => std::mem::take(&mut *rc.borrow_mut()),
    };
    RunOutcome { result, shared: sh }
}
