//! C13 in process (engine E2): the same reference model and placement generator as the E1 part,
//! but option resolution runs in this process — `Opt::from_args_and_git_config` with a constructed
//! `DeltaEnv`, `Config::from`, `show_config` into a buffer — on a fresh thread whose hash keys
//! derive from the placement's seed.  ~100x cheaper per placement than a process, so the lattice
//! goes one level deeper: every unordered TRIPLE of source kinds for every probe option.

use crate::sim::on_fresh_thread;
use delta::verif_hooks as dh;
use serde_json::json;
use simcore::c13m::*;
use simcore::evidence::Evidence;
use simcore::report::*;
use simcore::rng::{mix, tag, Rng};
use std::collections::{BTreeMap, BTreeSet};
use std::path::PathBuf;
use std::time::Instant;

fn scratch() -> PathBuf {
    let root = std::env::var("VERIF_SCRATCH").unwrap_or_else(|_| if std::path::Path::new("/dev/shm").is_dir() { "/dev/shm".into() } else { format!("{}/.build/runs", verif_root()) });
    PathBuf::from(format!("{}/deltasim.{}", root, std::process::id()))
}

/// One in-process evaluation: (complete --show-config output, value shown for the probe, error).
pub fn observe(p: &Placement, hash_seed: u64, slot: usize) -> (Vec<u8>, Option<String>, Option<String>) {
    let dir = scratch();
    let _ = std::fs::create_dir_all(&dir);
    let path = dir.join(format!("gc-{}-{}.conf", slot, hash_seed % 1000));
    let pstr = path.to_string_lossy().to_string();
    let e = encode(p, Some(&pstr));
    if std::fs::write(&path, &e.gitconfig).is_err() {
        return (vec![], None, Some("cannot write gitconfig".into()));
    }
    let probe = p.probe.clone();
    let wide = wide_by_name(&p.probe).is_some();
    let args = e.args.clone();
    let envv = e.env.clone();
    let r = on_fresh_thread(hash_seed, move || {
        let res = std::panic::catch_unwind(std::panic::AssertUnwindSafe(|| {
            let mut env = dh::DeltaEnv::default();
            for (k, v) in &envv {
                match k.as_str() {
                    "DELTA_FEATURES" => env.features = Some(v.clone()),
                    "GIT_CONFIG_PARAMETERS" => env.git_config_parameters = Some(v.clone()),
                    _ => {}
                }
            }
            let mut a: Vec<std::ffi::OsString> = vec!["delta".into()];
            for x in &args {
                a.push(x.into());
            }
            let assets = dh::load_highlighting_assets();
            let (_call, opt) = dh::Opt::from_args_and_git_config(a, &env, assets);
            let opt = opt.expect("Opt");
            if wide {
                // the resolved options themselves, as "long-name = value" lines in the layout of --show-config
                let fields = dump_opt(&opt);
                let mut out = String::new();
                for w in WIDE {
                    out.push_str(&format!("    {} = {}\n", w.probe.name, fields[w.field]));
                }
                return out.into_bytes();
            }
            let config = dh::Config::from(opt);
            let mut out: Vec<u8> = Vec::new();
            dh::show_config(&config, &mut out).expect("show_config");
            out
        }));
        res.map_err(|e| e.downcast_ref::<String>().cloned().or_else(|| e.downcast_ref::<&str>().map(|s| s.to_string())).unwrap_or_else(|| "panic".into()))
    });
    let _ = std::fs::remove_file(&path);
    match r {
        Ok(out) => {
            let shown = shown_value(&out, &probe);
            (out, shown, None)
        }
        Err(e) => (vec![], None, Some(e)),
    }
}

macro_rules! dump_fields {
    ($opt:expr; str: [$($s:ident),*]; opt: [$($o:ident),*]; disp: [$($d:ident),*]) => {{
        let mut m: BTreeMap<&'static str, String> = BTreeMap::new();
        $(m.insert(stringify!($s), $opt.$s.clone());)*
        $(m.insert(stringify!($o), $opt.$o.clone().unwrap_or_else(|| "<none>".to_string()));)*
        $(m.insert(stringify!($d), $opt.$d.to_string());)*
        m
    }};
}

/// The fields of `cli::Opt` behind the options of the wide table (simcore::c13m::WIDE).
fn dump_opt(opt: &dh::Opt) -> BTreeMap<&'static str, String> {
    dump_fields!(opt;
        str: [blame_format, blame_separator_format, blame_timestamp_format, commit_decoration_style, commit_regex, commit_style, default_language, diff_args, file_copied_label, file_decoration_style, file_removed_label, file_style, grep_file_style, grep_line_number_style, grep_separator_symbol, hunk_header_decoration_style, hunk_header_file_style, hunk_header_line_number_style, hunk_header_style, hunk_label, hyperlinks_file_link_format, inline_hint_style, line_numbers_left_style, line_numbers_minus_style, line_numbers_plus_style, line_numbers_right_format, line_numbers_right_style, line_numbers_zero_style, merge_conflict_begin_symbol, merge_conflict_end_symbol, merge_conflict_ours_diff_header_decoration_style, merge_conflict_ours_diff_header_style, merge_conflict_theirs_diff_header_decoration_style, merge_conflict_theirs_diff_header_style, minus_empty_line_marker_style, minus_emph_style, minus_non_emph_style, minus_style, paging_mode, plus_emph_style, plus_empty_line_marker_style, plus_non_emph_style, plus_style, true_color, whitespace_error_style, tokenization_regex, wrap_left_symbol, wrap_max_lines, wrap_right_percent, wrap_right_prefix_symbol, wrap_right_symbol, zero_style];
        opt: [blame_code_style, blame_palette, blame_separator_style, blame_timestamp_output_format, file_regex_replacement, grep_context_line_style, grep_header_decoration_style, grep_header_file_style, grep_output_type, grep_match_line_style, grep_match_word_style, hyperlinks_commit_link_format, line_fill_method, map_styles, navigate_regex];
        disp: [line_buffer_size, max_syntax_length, max_line_length, parse_ansi, relative_paths])
}

pub fn check_placement(p: &Placement, defaults: &BTreeMap<String, String>, table: &BuiltinTable, hash_seeds: &[u64], slot: usize) -> Vec<Violation> {
    let probe = probe_by_name(&p.probe);
    let mut out = Vec::new();
    let mut first: Option<(Vec<u8>, Option<String>)> = None;
    for (i, hs) in hash_seeds.iter().enumerate() {
        let (bytes, shown, err) = observe(p, *hs, slot);
        if let Some(e) = err {
            out.push(Violation::new("P0-runs", &format!("e2:{}:error", p.probe), format!("option resolution failed: {}", e.lines().next().unwrap_or(""))));
            return out;
        }
        match &first {
            None => {
                let default = defaults.get(&default_key(p)).cloned().unwrap_or_default();
                let acc = acceptable(p, probe, &default, table);
                match &shown {
                    None => out.push(Violation::new("P0-shown", &format!("e2:{}:not-shown", p.probe), format!("option {} not found in --show-config output", p.probe))),
                    Some(v) => {
                        let numeric_match = probe.ty == PType::Float && v.parse::<f64>().ok().map(|x| acc.iter().any(|a| a.parse::<f64>().ok() == Some(x))).unwrap_or(false);
                        if !acc.contains(v) && !numeric_match {
                            out.push(Violation::new("P1-precedence", &format!("e2:{}:{}", p.probe, p.sources.join("+")), format!("[in process] {} resolved to {:?}; the documented precedence gives {:?} (sources: {})", p.probe, v, acc, p.sources.join("+"))));
                        }
                    }
                }
                first = Some((bytes, shown));
            }
            Some((b0, s0)) => {
                if &bytes != b0 {
                    out.push(Violation::new("P2-deterministic", &format!("e2:{}:hash-seed", p.probe), format!("[in process] same sources, different result under hash seeds {} and {}: {} = {:?} vs {:?}", hash_seeds[0], hash_seeds[i], p.probe, s0, shown)));
                    break;
                }
            }
        }
    }
    out
}

fn calibrate() -> (BTreeMap<String, String>, BuiltinTable) {
    let mut defaults = BTreeMap::new();
    let mut table = BuiltinTable::new();
    for probe in PROBES {
        let mut p = Placement::default();
        p.probe = probe.name.to_string();
        p.no_gitconfig = true;
        for extra in extra_cli_variants(probe.name) {
            let mut q = p.clone();
            q.extra_cli = extra;
            if let (_, Some(v), None) = observe(&q, 1, 999_999) {
                defaults.insert(default_key(&q), v);
            }
        }
        for b in BUILTINS {
            // see the E1 part: a lower-priority custom feature carries a marker value
            let (m1, m2) = calibration_markers(probe);
            for colors in [false, true] {
                if colors && !reads_git_colors(probe.name) {
                    continue;
                }
                let mut shown: Vec<Option<String>> = Vec::new();
                for m in [&m1, &m2] {
                    let mut q = Placement::default();
                    q.probe = probe.name.to_string();
                    q.custom.insert("fz".into(), Section { value: Some(m.clone()), ..Default::default() });
                    q.cli_features = Some(vec!["fz".to_string(), b.to_string()]);
                    q.git_colors = colors;
                    shown.push(match observe(&q, 1, 999_999) {
                        (_, Some(v), None) => Some(v),
                        _ => None,
                    });
                }
                let quoted = |m: &str, v: &str| v == m || v == format!("'{}'", m);
                if let (Some(v1), Some(v2)) = (&shown[0], &shown[1]) {
                    if !(quoted(&m1, v1) && quoted(&m2, v2)) {
                        table.insert((probe.name.to_string(), if colors { format!("{}+git-colors", b) } else { b.to_string() }), v1.clone());
                    }
                }
            }
        }
    }
    for w in WIDE {
        let mut p = Placement::default();
        p.probe = w.probe.name.to_string();
        p.no_gitconfig = true;
        if let (_, Some(v), None) = observe(&p, 1, 999_999) {
            defaults.insert(w.probe.name.to_string(), v);
        }
    }
    (defaults, table)
}

/// Every unordered triple of source kinds, for every probe (plus pairs and singles through `lattice`).
fn triples(seed: u64, stride: usize) -> Vec<Placement> {
    let mut out = Vec::new();
    let mut n = 0u64;
    for probe in PROBES {
        for (i, a) in SOURCE_KINDS.iter().enumerate() {
            for (j, b) in SOURCE_KINDS.iter().enumerate().skip(i) {
                for c in SOURCE_KINDS.iter().skip(j) {
                    n += 1;
                    if stride > 1 && (n as usize) % stride != 0 {
                        continue;
                    }
                    let mut rng = Rng::new(mix(seed, &[tag("C13"), tag("triples"), n]));
                    let mut bld = Builder::new(probe);
                    let mut order = [*a, *b, *c];
                    rng.shuffle(&mut order);
                    let mut ok = 0;
                    for k in order {
                        if bld.add(&mut rng, k) {
                            ok += 1;
                        }
                    }
                    bld.p.no_gitconfig = rng.chance(1, 20);
                    bld.p.sloppy_ws = rng.chance(1, 6);
                    if ok >= 2 && sane(&bld.p) {
                        out.push(bld.p);
                    }
                }
            }
        }
    }
    out
}

pub fn main_c13(tier: &str, seed: u64, replay: Option<&str>) -> i32 {
    let t0 = Instant::now();
    let (defaults, table) = calibrate();
    if defaults.len() < PROBES.len() + WIDE.len() {
        eprintln!("HARNESS-ERROR: could not read defaults for all probe options in process: {:?}", defaults);
        return 2;
    }
    if let Some(path) = replay {
        let v: serde_json::Value = match std::fs::read_to_string(path).ok().and_then(|t| serde_json::from_str(&t).ok()) {
            Some(v) => v,
            None => return 2,
        };
        let p: Placement = serde_json::from_value(v["placement"].clone()).unwrap();
        let hs: Vec<u64> = serde_json::from_value(v["hash_seeds"].clone()).unwrap();
        let oracle = v["oracle"].as_str().unwrap_or("");
        let vs = check_placement(&p, &defaults, &table, &hs, 0);
        let _ = std::fs::remove_dir_all(scratch());
        return match vs.iter().find(|x| x.oracle == oracle) {
            Some(x) => {
                println!("VIOLATION property=C13 replay={}", path);
                println!("  oracle={} {}", x.oracle, x.message);
                1
            }
            None => {
                println!("replay {}: no violation of {}", path, oracle);
                0
            }
        };
    }
    let thorough = tier == "thorough";
    let mut placements = lattice(seed, true);
    let n_lattice = placements.len();
    // quick: every third triple; thorough: all of them
    placements.extend(triples(seed, if thorough { 1 } else { 5 }));
    let n_triples = placements.len() - n_lattice;
    let wide = lattice_wide(seed);
    let n_wide = wide.len();
    placements.extend(wide);
    let n_random = if thorough { 300_000 } else { 3_000 };
    for i in 0..n_random {
        placements.push(gen_placement(seed ^ 0xE2, i));
    }
    let n_hash = if thorough { 4 } else { 2 };
    let results = crate::par_map(placements.len(), &|i| {
        let hs: Vec<u64> = (0..n_hash).map(|j| mix(seed, &[tag("C13-e2-hash"), i as u64, j as u64]) % 1_000_000).collect();
        (check_placement(&placements[i], &defaults, &table, &hs, i), hs)
    });
    let known = load_known();
    let mut exit = 0;
    let mut reported: BTreeSet<String> = BTreeSet::new();
    let mut kind_triples: BTreeSet<Vec<String>> = BTreeSet::new();
    for (i, (vs, hs)) in results.iter().enumerate() {
        let mut ks = placements[i].sources.clone();
        ks.sort();
        ks.dedup();
        if ks.len() == 3 {
            kind_triples.insert(ks);
        }
        for v in vs {
            if let Some(k) = known.matches("C13", v) {
                println!("KNOWN-FINDING: property=C13 {} [{}]", k.what, k.signature);
                continue;
            }
            let key = format!("{}:{}", v.oracle, placements[i].probe);
            if reported.contains(&key) || reported.len() >= 5 {
                continue;
            }
            reported.insert(key);
            // minimise: drop sources one at a time while the oracle keeps failing
            let mut best = placements[i].clone();
            let still = |c: &Placement| check_placement(c, &defaults, &table, hs, 0).iter().any(|x| x.oracle == v.oracle);
            let mut changed = true;
            let mut budget = 40;
            while changed && budget > 0 {
                changed = false;
                let mut cands: Vec<Placement> = Vec::new();
                for f in [
                    |c: &mut Placement| c.cli_value = None,
                    |c: &mut Placement| c.envparam_value = None,
                    |c: &mut Placement| c.main.value = None,
                    |c: &mut Placement| c.main.features = None,
                    |c: &mut Placement| c.main.flags.clear(),
                    |c: &mut Placement| c.envparam_flags.clear(),
                    |c: &mut Placement| c.envparam_features = None,
                    |c: &mut Placement| c.cli_features = None,
                    |c: &mut Placement| c.env_features = None,
                    |c: &mut Placement| c.cli_flags.clear(),
                    |c: &mut Placement| c.sloppy_ws = false,
                ] {
                    let mut c = best.clone();
                    f(&mut c);
                    if c != best {
                        cands.push(c);
                    }
                }
                for name in best.custom.keys().cloned().collect::<Vec<_>>() {
                    let mut c = best.clone();
                    c.custom.remove(&name);
                    cands.push(c);
                }
                for c in cands {
                    if budget == 0 {
                        break;
                    }
                    budget -= 1;
                    if still(&c) {
                        best = c;
                        changed = true;
                        break;
                    }
                }
            }
            let mv = check_placement(&best, &defaults, &table, hs, 0).into_iter().find(|x| x.oracle == v.oracle).unwrap_or_else(|| v.clone());
            let e = encode(&best, Some("gc.conf"));
            let path = write_replay("C13", &format!("E2-{}-{}", v.oracle, reported.len()), &json!({"property": "C13", "engine": "E2-inproc", "seed": seed, "oracle": mv.oracle, "signature": mv.signature, "message": mv.message, "placement": best, "hash_seeds": hs, "command": {"args": e.args, "env": e.env, "gitconfig": e.gitconfig}}));
            println!("VIOLATION property=C13 replay={}", path.display());
            println!("  oracle={} {}", mv.oracle, mv.message);
            exit = 1;
        }
    }
    let mut ev = Evidence::new("C13", tier, seed, "exploration");
    ev.evaluations = (placements.len() * n_hash) as u64;
    ev.distinct_nontrivial = placements.len() as u64;
    ev.rule = "E2 part: one evaluation = one in-process option resolution (Opt::from_args_and_git_config with a constructed DeltaEnv and a --config file, Config::from, show_config into a buffer) on a fresh thread whose hash keys derive from the run's seed; placements = the pair lattice (both construction orders), every unordered triple of the 30 source kinds for each of 13 probes (quick: every fifth), seeded deeper placements, and a wide-but-shallow part: every single custom source kind and every unordered pair of the 10 custom kinds for each of the 70 other options that the set_options! list makes settable in gitconfig, observed as the field of the resolved `Opt`; same reference model as the E1 part. distinct_nontrivial = placements.".into();
    ev.counters.insert("placements".into(), placements.len() as u64);
    ev.counters.insert("lattice_pairs_and_singles".into(), n_lattice as u64);
    ev.counters.insert("triple_placements".into(), n_triples as u64);
    ev.counters.insert("wide_placements_all_other_gitconfig_options".into(), n_wide as u64);
    ev.counters.insert("wide_options".into(), WIDE.len() as u64);
    ev.counters.insert("distinct_source_kind_triples_covered".into(), kind_triples.len() as u64);
    ev.counters.insert("hash_seeds_per_placement".into(), n_hash as u64);
    ev.violations = reported.len() as u64;
    ev.samples = placements.iter().skip(n_lattice).step_by((n_triples / 3).max(1)).take(3).map(|p| json!({"probe": p.probe, "sources": p.sources})).collect();
    ev.extra.insert("engine".into(), json!("E2-inproc"));
    ev.wall_s = t0.elapsed().as_secs_f64();
    let _ = std::fs::remove_dir_all(scratch());
    if ev.write(&crate::evidence_path("C13")).is_err() {
        return 2;
    }
    println!("C13 {} (E2): {} placements ({} pairs/singles, {} triples, {} sampled), {} in-process evaluations, {} kind triples covered, {} violations, {:.1}s", tier, placements.len(), n_lattice, n_triples, n_random, ev.evaluations, kind_triples.len(), reported.len(), ev.wall_s);
    exit
}
