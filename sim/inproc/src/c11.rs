//! C11 — output is streamed: bounded lag behind the input, never revised (engine E2).

use crate::sim::*;
use serde::{Deserialize, Serialize};
use serde_json::json;
use simcore::gen::{self, DeltaOpts, GLine, GenParams, LineKind};
use simcore::report::Violation;
use simcore::rng::{mix, tag, Rng};
use simcore::lag::{self, LagStats, Q};
use std::collections::BTreeMap;
use std::rc::Rc;

#[derive(Clone, Debug, Serialize, Deserialize)]
pub struct Case {
    pub opts: DeltaOpts,
    pub lines: Vec<GLine>,
    /// sampled delivery schedule (cyclic chunk sizes; 0 = Interrupted)
    pub rschedule: Vec<usize>,
    /// simulated producer pauses in ms before each delivery (cyclic); delta's clocks advance by them
    #[serde(default)]
    pub rdelays_ms: Vec<u64>,
    /// sampled consumer plan (cyclic; -1 all, 0 Interrupted, n short write)
    pub wplan: Vec<i64>,
    /// indexes (into the sampled run's quiescence points) at which oracle P is evaluated
    pub p_points: Vec<usize>,
    #[serde(default)]
    pub gen: Option<GenParams>,
}

#[derive(Default, Clone, Debug)]
pub struct CaseStats {
    pub lag: LagStats,
    pub eintr_reads: u64,
    pub eintr_writes: u64,
    pub short_writes: u64,
    pub clock_advances: u64,
    pub clock_advanced_ms: u64,
    pub would_block: u64,
    pub chunk_inside_utf8: u64,
    pub chunk_inside_line: u64,
    pub p_checks: u64,
    pub e_checks: u64,
    pub delta_runs: u64,
    pub panics: u64,
    pub shape: String,
}

pub fn gen_case(seed: u64, idx: usize) -> Case {
    let mut rng = Rng::new(mix(seed, &[tag("C11"), tag("case"), idx as u64]));
    let opts = gen::random_delta_opts(&mut rng);
    let mut gp = gen::random_params(&mut rng, opts.line_buffer_size.min(8));
    if opts.line_buffer_size == 32 && rng.chance(1, 2) {
        gp.pivot = 32;
        gp.max_run = 40;
    }
    let mut lines = gen::generate(&mut rng, &gp);
    let _ = gen::add_byte_features(&mut lines, &mut rng);
    if rng.chance(1, 3) {
        let _ = gen::add_git_colors(&mut lines, &mut rng);
    }
    // delivery schedule: 1 byte .. 4 KiB, with Interrupted sprinkled in
    let style = rng.below(6);
    let n = rng.range(1, 12);
    let rschedule: Vec<usize> = (0..n)
        .map(|_| match style {
            0 => 1,
            1 => *rng.pick(&[1usize, 2, 3, 0]),
            2 => rng.range(1, 40),
            3 => *rng.pick(&[0usize, 7, 64, 300, 4096]),
            4 => rng.range(1, 4096),
            _ => *rng.pick(&[0usize, 1, 5, 17, 33, 100, 1000]),
        })
        .collect();
    let mut rschedule = rschedule;
    if rschedule.iter().all(|c| *c == 0) {
        rschedule.push(3);
    }
    let m = rng.range(1, 8);
    let mut wplan: Vec<i64> = (0..m).map(|_| *rng.pick(&[-1i64, -1, -1, 0, 1, 2, 5, 40])).collect();
    if wplan.iter().all(|c| *c == 0) {
        wplan.push(-1);
    }
    let nd = rng.range(1, 6);
    let rdelays_ms: Vec<u64> = (0..nd).map(|_| *rng.pick(&[0u64, 0, 1, 30, 450, 2_000, 60_000, 3_600_000])).collect();
    let p_points = vec![rng.below(1_000_000) as usize, rng.below(1_000_000) as usize, rng.below(1_000_000) as usize];
    Case { opts, lines, rschedule, rdelays_ms, wplan, p_points, gen: Some(gp) }
}

/// `git diff --word-diff` output: no -/+ lines; changes are marked inside the lines, and delta
/// renders every hunk line as it comes (nothing may be held back).
pub fn to_word_diff(case: &mut Case) {
    case.opts.args.retain(|a| a != "--color-only");
    for l in case.lines.iter_mut() {
        // this pass builds its own lines: start from the undecorated text
        if l.text.contains('\x1b') {
            l.text = String::from_utf8_lossy(&simcore::text::strip_ansi(l.text.as_bytes())).to_string();
        }
        match l.kind {
            LineKind::Minus | LineKind::Plus | LineKind::Context => {
                let body: String = l.text.chars().skip(1).collect();
                l.text = if l.kind == LineKind::Context { format!(" {}", body) } else { format!(" {} [-old-]{{+new+}}", body) };
                l.kind = LineKind::Context;
            }
            _ => {}
        }
    }
    case.lines.retain(|l| l.kind != LineKind::NoNewline);
}

pub fn check_case(case: &Case) -> (Vec<Violation>, CaseStats) {
    let mut stats = CaseStats::default();
    let mut out: Vec<Violation> = Vec::new();
    stats.shape = format!("{}|lbs{}|{}", if case.opts.side_by_side { "sbs" } else if case.opts.color_only { "color-only" } else { "unified" }, case.opts.line_buffer_size, case.gen.as_ref().map(|g| format!("{:?}", g.flavor)).unwrap_or_default());
    let config = match make_config(&case.opts.args) {
        Ok(c) => c,
        Err(e) => {
            eprintln!("NOTE: could not build Config for {:?}: {}", case.opts.args, e);
            stats.panics += 1;
            return (out, stats);
        }
    };
    let data = Rc::new(gen::to_bytes(&case.lines));
    // reference: one chunk, no faults
    let base = run_delta(RunParams { config: &config, data: data.clone(), rschedule: vec![], rdelays_ms: vec![], wplan: vec![], fail_at: None, fail_kind: std::io::ErrorKind::BrokenPipe, keep_output: true, record_quiescence: false });
    stats.delta_runs += 1;
    match &base.result {
        Ok(Ok(())) => {}
        Ok(Err(e)) => {
            eprintln!("NOTE: delta() returned an error in a fault-free run: {}", e);
            stats.panics += 1;
            return (out, stats);
        }
        Err(p) => {
            eprintln!("NOTE: incidental panic in a fault-free run (not a C11 matter): {}", p.lines().next().unwrap_or(""));
            if let Ok(dir) = std::env::var("DELTASIM_DUMP_PANICS") {
                let name = format!("{}/panic-{:016x}.json", dir, simcore::rng::fnv64(&data));
                let _ = std::fs::write(name, serde_json::to_string(&json!({"args": case.opts.args, "input": String::from_utf8_lossy(&data), "hex": data.iter().map(|b| format!("{:02x}", b)).collect::<String>()})).unwrap_or_default());
            }
            stats.panics += 1;
            return (out, stats);
        }
    }
    let ref_out = base.shared.out;
    let t = lag::truth(&case.lines, &ref_out);

    // schedule A: one line per chunk — every line boundary is a pause point
    let line_chunks: Vec<usize> = case.lines.iter().map(|l| l.text.len() + 1).collect();
    let a = run_delta(RunParams { config: &config, data: data.clone(), rschedule: line_chunks, rdelays_ms: vec![], wplan: vec![], fail_at: None, fail_kind: std::io::ErrorKind::BrokenPipe, keep_output: true, record_quiescence: true });
    stats.delta_runs += 1;
    if !matches!(a.result, Ok(Ok(()))) {
        out.push(Violation::new("D-delivery-independence", "D:result-differs", format!("line-by-line delivery ends differently from one-chunk delivery: {:?}", a.result.as_ref().map(|r| r.as_ref().map_err(|e| e.to_string())))));
        return (out, stats);
    }
    if a.shared.out != ref_out {
        out.push(Violation::new("D-delivery-independence", "D:output-differs", format!("output for line-by-line delivery ({} bytes) differs from one-chunk delivery ({} bytes)", a.shared.out.len(), ref_out.len())));
        return (out, stats);
    }
    let qa: Vec<Q> = a.shared.quiescence.iter().map(|q| Q { delivered: q.delivered, written: q.written }).collect();
    if let Some(v) = lag::check_lag(&case.lines, case.opts.line_buffer_size, &t, &qa, &mut stats.lag, "one line per read") {
        out.push(v);
        return (out, stats);
    }

    // oracle E (nothing at all is held back after an unchanged line): at quiescence points of run A
    // whose last delivered line is an unchanged hunk line (or the `\ No newline at end of file`
    // marker of an unchanged line: not a removed or added line, so it may not wait either), what has been written equals — not just
    // prefixes — what delta writes for exactly those lines followed by EOF.  This covers output
    // that carries no token: file and hunk headers, commit and diffstat lines, wrapped continuation
    // lines, decorations.
    {
        let qa_all = &a.shared.quiescence;
        let mut cands: Vec<usize> = Vec::new();
        let mut j: isize = -1;
        for (qi, q) in qa_all.iter().enumerate() {
            while ((j + 1) as usize) < case.lines.len() && t.line_end[(j + 1) as usize] <= q.delivered {
                j += 1;
            }
            if j >= 0 && t.line_end[j as usize] == q.delivered && (case.lines[j as usize].kind == LineKind::Context || (j >= 1 && case.lines[j as usize].kind == LineKind::NoNewline && case.lines[(j - 1) as usize].kind == LineKind::Context)) && q.delivered < data.len() {
                cands.push(qi);
            }
        }
        if !cands.is_empty() {
            for (n, pp) in case.p_points.iter().enumerate() {
                if n >= 2 {
                    break;
                }
                let qi = cands[pp % cands.len()];
                let q = &qa_all[qi];
                let prefix = Rc::new(data[..q.delivered].to_vec());
                let f = run_delta(RunParams { config: &config, data: prefix, rschedule: vec![], rdelays_ms: vec![], wplan: vec![], fail_at: None, fail_kind: std::io::ErrorKind::BrokenPipe, keep_output: true, record_quiescence: false });
                stats.delta_runs += 1;
                stats.e_checks += 1;
                if !matches!(f.result, Ok(Ok(()))) {
                    continue;
                }
                let w = &ref_out[..q.written.min(ref_out.len())];
                if f.shared.out != w {
                    let fo = String::from_utf8_lossy(&simcore::text::strip_ansi(&f.shared.out)).to_string();
                    let wo = String::from_utf8_lossy(&simcore::text::strip_ansi(w)).to_string();
                    let missing: String = if fo.len() >= wo.len() && fo.starts_with(&wo) { fo[wo.len()..].chars().take(160).collect() } else { "(not a prefix)".into() };
                    out.push(Violation::new(
                        "E-nothing-held-after-unchanged-line",
                        "E:output-held-back-after-unchanged-line",
                        format!("after {} input bytes ending in the unchanged line {:?}, {} bytes are written but delta writes {} bytes for exactly this input; held back: {:?}", q.delivered, case.lines[(0..case.lines.len()).find(|i| t.line_end[*i] == q.delivered).unwrap_or(0)].text, w.len(), f.shared.out.len(), missing),
                    ));
                    return (out, stats);
                }
            }
        }
    }

    // schedule B: the sampled schedule with non-fatal faults on both sides
    let b = run_delta(RunParams { config: &config, data: data.clone(), rschedule: case.rschedule.clone(), rdelays_ms: case.rdelays_ms.clone(), wplan: case.wplan.clone(), fail_at: None, fail_kind: std::io::ErrorKind::BrokenPipe, keep_output: true, record_quiescence: true });
    stats.delta_runs += 1;
    stats.eintr_reads += b.shared.eintr_reads as u64;
    stats.eintr_writes += b.shared.eintr_writes as u64;
    stats.short_writes += b.shared.short_writes as u64;
    stats.clock_advances += b.shared.clock_advances as u64;
    stats.clock_advanced_ms += b.shared.clock_advanced_ms;
    if !matches!(b.result, Ok(Ok(()))) {
        out.push(Violation::new("D-delivery-independence", "D:result-differs", format!("delivery schedule {:?} (pauses {:?} ms) / consumer plan {:?} ends differently: {:?}", case.rschedule, case.rdelays_ms, case.wplan, b.result.as_ref().map(|r| r.as_ref().map_err(|e| e.to_string())))));
        return (out, stats);
    }
    if b.shared.out != ref_out {
        out.push(Violation::new("D-delivery-independence", "D:output-differs", format!("output under delivery schedule {:?} with producer pauses {:?} ms / consumer plan {:?} ({} bytes) differs from one-chunk delivery without pauses ({} bytes)", case.rschedule, case.rdelays_ms, case.wplan, b.shared.out.len(), ref_out.len())));
        return (out, stats);
    }
    // where did chunk boundaries fall?
    for q in &b.shared.quiescence {
        if q.delivered > 0 && q.delivered < data.len() {
            if data[q.delivered - 1] != b'\n' {
                stats.chunk_inside_line += 1;
            }
            if (data[q.delivered] & 0xC0) == 0x80 {
                stats.chunk_inside_utf8 += 1;
            }
        }
    }
    let qb: Vec<Q> = b.shared.quiescence.iter().map(|q| Q { delivered: q.delivered, written: q.written }).collect();
    if let Some(v) = lag::check_lag(&case.lines, case.opts.line_buffer_size, &t, &qb, &mut stats.lag, "sampled schedule") {
        out.push(v);
        return (out, stats);
    }

    // schedule C (one case in three): stdin is non-blocking and reports EAGAIN once, at a line
    // boundary.  Whether delta then stops (end of input) or retries is not C11's business, but
    // what it writes must be one of the two: the output for exactly the lines before the stall, or
    // the output for the whole input — a read error must not make delta render anything differently.
    if case.p_points[0] % 3 == 0 && case.lines.len() > 2 {
        let at = 1 + case.p_points[1] % (case.lines.len() - 1);
        let mut sched: Vec<usize> = case.lines.iter().map(|l| l.text.len() + 1).collect();
        sched.insert(at, WOULD_BLOCK);
        let c = run_delta(RunParams { config: &config, data: data.clone(), rschedule: sched, rdelays_ms: vec![], wplan: vec![], fail_at: None, fail_kind: std::io::ErrorKind::BrokenPipe, keep_output: true, record_quiescence: false });
        stats.delta_runs += 1;
        stats.would_block += c.shared.would_block_reads as u64;
        if let (Some(pos), Ok(_)) = (c.shared.would_block_at, &c.result) {
            if c.shared.out != ref_out {
                let prefix = Rc::new(data[..pos].to_vec());
                let f = run_delta(RunParams { config: &config, data: prefix, rschedule: vec![], rdelays_ms: vec![], wplan: vec![], fail_at: None, fail_kind: std::io::ErrorKind::BrokenPipe, keep_output: true, record_quiescence: false });
                stats.delta_runs += 1;
                if matches!(f.result, Ok(Ok(()))) && f.shared.out != c.shared.out {
                    out.push(Violation::new(
                        "D-delivery-independence",
                        "D:read-error-changes-rendering",
                        format!("stdin reported EAGAIN once after {} input lines ({} bytes): the output ({} bytes) is neither the output for the lines before the stall ({} bytes) nor the output for the whole input ({} bytes)", at, pos, c.shared.out.len(), f.shared.out.len(), ref_out.len()),
                    ));
                    return (out, stats);
                }
            }
        }
    }

    // oracle P at sampled quiescence points of run B: what has been written is a prefix of what
    // delta writes for exactly the delivered bytes followed by EOF
    let qs = &b.shared.quiescence;
    if !qs.is_empty() {
        for pp in &case.p_points {
            let q = &qs[pp % qs.len()];
            let prefix = Rc::new(data[..q.delivered].to_vec());
            let f = run_delta(RunParams { config: &config, data: prefix, rschedule: vec![], rdelays_ms: vec![], wplan: vec![], fail_at: None, fail_kind: std::io::ErrorKind::BrokenPipe, keep_output: true, record_quiescence: false });
            stats.delta_runs += 1;
            stats.p_checks += 1;
            if !matches!(f.result, Ok(Ok(()))) {
                continue; // a prefix cut mid-line may legitimately upset nothing; errors here are not C11's
            }
            let w = &ref_out[..q.written.min(ref_out.len())];
            if !(f.shared.out.len() >= w.len() && &f.shared.out[..w.len()] == w) {
                out.push(Violation::new(
                    "P-prefix",
                    "P:written-not-prefix-of-prefix-run",
                    format!("the {} bytes written after {} input bytes are not a prefix of what delta writes for those {} input bytes on their own ({} bytes)", q.written, q.delivered, q.delivered, f.shared.out.len()),
                ));
                return (out, stats);
            }
        }
    }
    (out, stats)
}

/// Oracle M: live heap at quiescence points following a context line must not grow with input.
pub fn memory_check(args: &[String], n: usize, seed: u64, long_lines: bool, many_files: bool, wrap_shapes: bool, many_commits: bool, giant_hunk: bool) -> (Option<Violation>, serde_json::Value) {
    let config = match make_config(args) {
        Ok(c) => c,
        Err(e) => return (None, json!({"error": e})),
    };
    let build = |reps: usize| -> (Vec<u8>, Vec<GLine>) {
        // `reps` hunks in a handful of file sections; run lengths around the buffer size
        let mut rng = Rng::new(mix(seed, &[tag("C11"), tag("mem")]));
        let gp = GenParams { flavor: gen::Flavor::Git, sections: vec![], max_hunks: 1, pivot: 3, max_run: 8, with_commit_preamble: false, multibyte: false, no_newline_marker: false, similar_pairs: true, no_index_lines: false, no_prefix: false, line_number_class: 0, long_line_pct: 0, path_style: 0 };
        let mut lines: Vec<GLine> = Vec::new();
        let mut templates: Vec<Vec<GLine>> = Vec::new();
        let mut tok = 0usize;
        // `many_files`: one hunk per file section, i.e. the number of files grows with the input
        // `many_commits`: additionally every file section is a commit of its own (`git log -p`)
        let many_files = many_files || many_commits;
        let per_section = if giant_hunk { usize::MAX } else if many_files { 1 } else { 50 };
        let mut s = 0;
        let mut produced = 0;
        while produced < reps {
            // one section with `per_section` hunks: generate single-hunk sections and strip repeated headers
            for h in 0..per_section.min(reps - produced) {
                // a fixed repertoire of hunks, repeated (content-keyed caches are warm early);
                // with one file per hunk the file names stay distinct
                let sec = if templates.len() < 100 || many_files {
                    let x = if many_commits {
                        // kinds with file events and mode lines too: what a per-commit or per-file record would keep
                        let kind = [gen::SectionKind::Modified, gen::SectionKind::Added, gen::SectionKind::RenamedChanged, gen::SectionKind::ModeAndChange, gen::SectionKind::Deleted][produced % 5];
                        gen::generate_commit_unit(&mut rng, &gp, kind, s, tok, None, produced % 3 == 0)
                    } else if giant_hunk {
                        // plain text: with a programming language the highlighter's scope stack deepens
                        // with every unclosed bracket or comment opener of the (random) content, which
                        // is memory owed to the content's nesting, not to the length of the hunk
                        gen::generate_section_named(&mut rng, &gp, gen::SectionKind::Modified, s, tok, Some("data/big.txt".to_string()))
                    } else {
                        gen::generate_section(&mut rng, &gp, gen::SectionKind::Modified, s, tok)
                    };
                    if templates.len() < 100 {
                        templates.push(x.clone());
                    }
                    x
                } else {
                    templates[produced % 100].clone()
                };
                tok += sec.iter().filter(|l| l.token.is_some()).count();
                for mut l in sec {
                    if h > 0 && l.kind == LineKind::Meta {
                        continue;
                    }
                    // `giant_hunk`: the whole input is one file with ONE hunk (a large added or rewritten
                    // file): headers only once, then nothing but hunk lines
                    if giant_hunk && produced > 0 && matches!(l.kind, LineKind::Meta | LineKind::HunkHeader) {
                        continue;
                    }
                    if l.kind == LineKind::HunkHeader {
                        // ascending, distinct positions although the hunk bodies repeat
                        l.text = gen::renumber_hunk_header(&l.text, 10 + produced * 37);
                    }
                    if long_lines && matches!(l.kind, LineKind::Context | LineKind::Minus | LineKind::Plus) {
                        // minified files, data tables, lock files: lines beyond every per-line limit
                        // (max-syntax-highlighting-length 400, max-line-length 3000 are the defaults)
                        let pad = if produced % 31 == 0 { 3300 } else { 450 };
                        let mut t = String::with_capacity(l.text.len() + pad);
                        t.push_str(&l.text);
                        while t.len() < pad {
                            t.push_str(" lorem(ipsum, 42) = dolor;");
                        }
                        l.text = t;
                    }
                    if wrap_shapes && matches!(l.kind, LineKind::Context | LineKind::Minus | LineKind::Plus) {
                        // lines a little or a lot wider than the panels of the widths in use (60, 120,
                        // 200, 400 columns, unified and side by side): every shape of wrapped row
                        const LENS: &[usize] = &[28, 34, 57, 63, 70, 95, 103, 118, 150, 199, 210, 260, 395, 410];
                        let want = LENS[(lines.len() * 7 + produced) % LENS.len()];
                        let mut t = l.text.clone();
                        while t.chars().count() < want {
                            t.push_str(" wrap(me, 7);");
                        }
                        l.text = t.chars().take(want.max(l.text.chars().count())).collect();
                    }
                    lines.push(l);
                }
                produced += 1;
            }
            s += 1;
        }
        (gen::to_bytes(&lines), lines)
    };
    let measure = |reps: usize| -> (isize, usize, usize) {
        let (data, lines) = build(reps);
        if let Ok(dir) = std::env::var("DELTASIM_DUMP_MEM_INPUT") {
            let _ = std::fs::write(format!("{}/mem-input-{}.diff", dir, reps), &data);
        }
        let len = data.len();
        let chunks: Vec<usize> = lines.iter().map(|l| l.text.len() + 1).collect();
        // quiescence i (i >= 1) follows line i-1
        let start = live_heap();
        let r = run_delta(RunParams { config: &config, data: Rc::new(data), rschedule: chunks, rdelays_ms: vec![], wplan: vec![], fail_at: None, fail_kind: std::io::ErrorKind::BrokenPipe, keep_output: false, record_quiescence: true });
        let qs = r.shared.quiescence;
        // the last quiescence point that follows a context line
        let mut best: Option<isize> = None;
        for (i, q) in qs.iter().enumerate() {
            if i >= 1 && i - 1 < lines.len() && lines[i - 1].kind == LineKind::Context {
                best = Some(q.heap - start);
            }
        }
        // subtract what the quiescence log itself holds
        let log_bytes = (qs.capacity() * std::mem::size_of::<Quiescence>()) as isize;
        (best.unwrap_or(0) - log_bytes, len, qs.len())
    };
    // warm up caches (lazily compiled regexes, one set per language met) with a large input
    // itself, so that what a cache retains is not counted as growth with input size
    let _ = measure(3 * n);
    // bytes of live heap per added hunk over two intervals of a geometric series of input sizes
    let slopes = |n: usize| -> (isize, isize, isize, usize, usize, usize, f64, f64, usize) {
        let (h1, l1, _) = measure(n);
        let (h3, l3, _) = measure(3 * n);
        let (h9, l9, q9) = measure(9 * n);
        (h1, h3, h9, l1, l3, l9, (h3 - h1) as f64 / (2 * n) as f64, (h9 - h3) as f64 / (6 * n) as f64, q9)
    };
    let (h1, h3, h9, l1, l3, l9, per_hunk_a, per_hunk_b, q9) = slopes(n);
    let growth = h9 - h1;
    let input_growth = (l9 - l1) as isize;
    let mut info = json!({"args": args, "long_lines": long_lines, "many_files": many_files, "wrap_shapes": wrap_shapes, "many_commits": many_commits, "giant_hunk": giant_hunk, "hunks_small": n, "hunks_mid": 3 * n, "hunks_large": 9 * n, "input_bytes_small": l1, "input_bytes_mid": l3, "input_bytes_large": l9, "live_heap_small": h1, "live_heap_mid": h3, "live_heap_large": h9, "heap_bytes_per_added_hunk": [per_hunk_a, per_hunk_b], "quiescence_points_large": q9});
    let first = per_hunk_a.min(per_hunk_b);
    if growth > input_growth / 4 || first >= 2.0 {
        // A buffer that doubles its capacity now and then (and stops once it fits the largest item)
        // can show up in both intervals of one geometric series; a leak has the same slope at every
        // scale.  Measure again at twice the sizes and ask for the same picture.
        let (g1, g3, g9, _, _, _, a2, b2, _) = slopes(2 * n);
        let second = a2.min(b2);
        info["second_measurement"] = json!({"hunks": [2 * n, 6 * n, 18 * n], "live_heap": [g1, g3, g9], "heap_bytes_per_added_hunk": [a2, b2]});
        let same_picture = second >= 2.0 && second >= first / 2.0 && second <= first * 2.0;
        if growth > input_growth / 4 || same_picture {
            return (
                Some(Violation::new(
                    "M-memory",
                    "M:heap-grows-with-input",
                    format!("live heap at a quiescence point after an unchanged line grows with the input: {} -> {} -> {} bytes for {} -> {} -> {} hunks ({:.1} and {:.1} bytes per added hunk; at twice the sizes {:.1} and {:.1}; input grew by {} bytes; long lines: {}; one file per hunk: {}; wrap shapes: {}; one commit per hunk: {}; one giant hunk: {}; args {:?})", h1, h3, h9, n, 3 * n, 9 * n, per_hunk_a, per_hunk_b, a2, b2, input_growth, long_lines, many_files, wrap_shapes, many_commits, giant_hunk, args),
                )),
                info,
            );
        }
    }
    (None, info)
}

pub fn merge_stats(into: &mut BTreeMap<String, u64>, s: &CaseStats) {
    let mut add = |k: &str, v: u64| *into.entry(k.to_string()).or_default() += v;
    add("quiescence_points_checked", s.lag.quiescence_checked);
    add("quiescence_points_inside_hunk", s.lag.in_hunk_points);
    add("points_with_held_lines_exactly_at_bound", s.lag.held_at_bound);
    add("points_in_run_longer_than_bound.minus", s.lag.runs_with_long_run_minus);
    add("points_in_run_longer_than_bound.plus", s.lag.runs_with_long_run_plus);
    add("fault_fired.read_eintr", s.eintr_reads);
    add("fault_fired.write_eintr", s.eintr_writes);
    add("fault_fired.short_write", s.short_writes);
    add("fault_fired.producer_pause_clock_advance", s.clock_advances);
    add("simulated_time_covered_ms", s.clock_advanced_ms);
    add("fault_fired.read_would_block", s.would_block);
    add("chunk_boundary_inside_utf8_sequence", s.chunk_inside_utf8);
    add("chunk_boundary_inside_line", s.chunk_inside_line);
    add("prefix_oracle_checks", s.p_checks);
    add("exactness_oracle_checks", s.e_checks);
    add("delta_runs", s.delta_runs);
    add("incidental_panics_or_errors", s.panics);
    let e = into.entry("max_held_minus".into()).or_default();
    *e = (*e).max(s.lag.max_held_minus as u64);
    let e = into.entry("max_held_plus".into()).or_default();
    *e = (*e).max(s.lag.max_held_plus as u64);
}
