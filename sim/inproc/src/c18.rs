//! C18 at the `dyn Write` seam (engine E2): for generated inputs, the consumer fails with
//! BrokenPipe at *every* write attempt in turn; delta() must return Err(BrokenPipe) at once
//! (no panic, not swallowed), and what was accepted must be exactly the fault-free prefix.

use crate::sim::*;
use serde::{Deserialize, Serialize};
use serde_json::json;
use simcore::evidence::Evidence;
use simcore::gen;
use simcore::report::*;
use simcore::rng::{mix, tag, Rng};
use std::collections::{BTreeMap, BTreeSet};
use std::rc::Rc;
use std::time::Instant;

#[derive(Clone, Debug, Serialize, Deserialize)]
pub struct Case {
    pub args: Vec<String>,
    pub kind: String,
    pub input: simcore::text::Blob,
    pub wplan: Vec<i64>,
}

pub fn gen_case(seed: u64, idx: usize) -> Case {
    let mut rng = Rng::new(mix(seed, &[tag("C18"), tag("e2"), idx as u64]));
    let opts = gen::random_delta_opts(&mut rng);
    let what = rng.below(10);
    let (kind, input) = if what < 6 {
        let gp = gen::random_params(&mut rng, opts.line_buffer_size.min(8));
        ("diff", gen::to_bytes(&gen::generate(&mut rng, &gp)))
    } else if what < 8 {
        let n = rng.range(2, 20);
        ("blame", gen::blame_input(&mut rng, n))
    } else if what == 8 {
        let n = rng.range(2, 20);
        ("grep", gen::grep_input(&mut rng, n))
    } else {
        let n = rng.range(1, 20);
        ("text", gen::plain_text(&mut rng, n))
    };
    // sometimes also short writes / EINTR before the fatal fault
    let wplan = if rng.chance(1, 3) { (0..rng.range(1, 5)).map(|_| *rng.pick(&[-1i64, -1, 0, 1, 9])).chain(std::iter::once(-1)).collect() } else { vec![] };
    Case { args: opts.args, kind: kind.into(), input: input.into(), wplan }
}

pub struct Out {
    pub violations: Vec<Violation>,
    pub attempts: usize,
    pub runs: u64,
}

pub fn check_case(case: &Case, only_k: Option<usize>) -> Out {
    let mut out = Out { violations: vec![], attempts: 0, runs: 0 };
    let config = match make_config(&case.args) {
        Ok(c) => c,
        Err(_) => return out,
    };
    let data = Rc::new(case.input.0.clone());
    let base = run_delta(RunParams { config: &config, data: data.clone(), rschedule: vec![], rdelays_ms: vec![], wplan: case.wplan.clone(), fail_at: None, fail_kind: std::io::ErrorKind::BrokenPipe, keep_output: true, record_quiescence: false });
    out.runs += 1;
    if !matches!(base.result, Ok(Ok(()))) {
        return out;
    }
    let n = base.shared.write_attempts;
    out.attempts = n;
    let ref_out = base.shared.out;
    let ks: Vec<usize> = match only_k {
        Some(k) => vec![k],
        None => (0..n).collect(),
    };
    for k in ks {
        let r = run_delta(RunParams { config: &config, data: data.clone(), rschedule: vec![], rdelays_ms: vec![], wplan: case.wplan.clone(), fail_at: Some(k), fail_kind: std::io::ErrorKind::BrokenPipe, keep_output: true, record_quiescence: false });
        out.runs += 1;
        let sig = |o: &str| format!("e2:{}:{}", case.kind, o);
        match &r.result {
            Err(p) => out.violations.push(Violation::new("X5-no-panic", &sig("panic"), format!("panic when the consumer fails at write {}: {}", k, p.lines().next().unwrap_or("")))),
            Ok(Ok(())) => out.violations.push(Violation::new("X5-error-propagates", &sig("swallowed"), format!("the consumer failed with BrokenPipe at write {} but delta() returned Ok: the error was swallowed and delta carried on", k))),
            Ok(Err(e)) => {
                if e.kind() != std::io::ErrorKind::BrokenPipe {
                    out.violations.push(Violation::new("X5-error-propagates", &sig("wrong-kind"), format!("the consumer failed with BrokenPipe at write {} but delta() returned {:?}", k, e.kind())));
                }
            }
        }
        if r.shared.writes_after_failure > 2 {
            out.violations.push(Violation::new("X5-stops", &sig("keeps-writing"), format!("{} further write attempts after the consumer failed at write {}", r.shared.writes_after_failure, k)));
        }
        if r.shared.reads_after_failure > 1 {
            out.violations.push(Violation::new("X5-stops", &sig("keeps-reading"), format!("{} further reads after the consumer failed at write {}", r.shared.reads_after_failure, k)));
        }
        if !(r.shared.out.len() <= ref_out.len() && r.shared.out[..] == ref_out[..r.shared.out.len()]) {
            out.violations.push(Violation::new("X2-prefix", &sig("not-a-prefix"), format!("bytes accepted before the failure at write {} are not a prefix of the fault-free output", k)));
        }
        if !out.violations.is_empty() {
            break;
        }
    }
    out
}

pub fn main_c18(tier: &str, seed: u64, replay: Option<&str>) -> i32 {
    let t0 = Instant::now();
    if let Some(path) = replay {
        let v: serde_json::Value = match std::fs::read_to_string(path).ok().and_then(|t| serde_json::from_str(&t).ok()) {
            Some(v) => v,
            None => return 2,
        };
        let case: Case = serde_json::from_value(v["case"].clone()).unwrap();
        let k = v["k"].as_u64().map(|x| x as usize);
        let oracle = v["oracle"].as_str().unwrap_or("");
        let o = check_case(&case, k);
        return match o.violations.iter().find(|x| x.oracle == oracle) {
            Some(x) => {
                println!("VIOLATION property=C18 replay={}", path);
                println!("  oracle={} {}", x.oracle, x.message);
                1
            }
            None => {
                println!("replay {}: no violation of {}", path, oracle);
                0
            }
        };
    }
    let n = if tier == "thorough" { 60_000 } else { 1_200 };
    let results = crate::par_map(n, &|i| {
        let case = gen_case(seed, i);
        on_fresh_thread(mix(seed, &[tag("C18-hash"), i as u64]), move || check_case(&case, None))
    });
    let known = load_known();
    let mut exit = 0;
    let mut reported: BTreeSet<String> = BTreeSet::new();
    let mut known_hit: BTreeMap<String, (String, u64)> = BTreeMap::new();
    let mut runs = 0u64;
    let mut points = 0u64;
    for (i, o) in results.iter().enumerate() {
        runs += o.runs;
        points += o.attempts as u64;
        if let Some(x) = o.violations.first() {
            if let Some(k) = known.matches("C18", x) {
                known_hit.entry(k.signature.clone()).or_insert((k.what.clone(), 0)).1 += 1;
                continue;
            }
            if reported.contains(&x.signature) || reported.len() >= 4 {
                continue;
            }
            reported.insert(x.signature.clone());
            let case = gen_case(seed, i);
            // the smallest failing k
            let mut kk = None;
            for k in 0..o.attempts {
                if check_case(&case, Some(k)).violations.iter().any(|y| y.oracle == x.oracle) {
                    kk = Some(k);
                    break;
                }
            }
            let path = write_replay("C18", &format!("E2-{}-{}", x.oracle, reported.len()), &json!({"property": "C18", "engine": "E2-inproc", "seed": seed, "oracle": x.oracle, "signature": x.signature, "message": x.message, "case": case, "k": kk}));
            println!("VIOLATION property=C18 replay={}", path.display());
            println!("  oracle={} {}", x.oracle, x.message);
            exit = 1;
        }
    }
    for (sigk, (what, nn)) in &known_hit {
        println!("KNOWN-FINDING: property=C18 {} [{}] ({} cases)", what, sigk, nn);
    }
    let mut ev = Evidence::new("C18", tier, seed, "fault_enumeration");
    ev.evaluations = runs;
    ev.distinct_nontrivial = points;
    ev.rule = "E2 part: one evaluation = one in-process delta() run; for each generated input (diff/blame/grep/text x option swarm) the consumer fails with BrokenPipe at every write attempt k of the fault-free run in turn. distinct_nontrivial = number of distinct (case, k) fault points, all of which were reached.".into();
    ev.counters.insert("cases".into(), n as u64);
    ev.counters.insert("fault_fired.epipe_at_dyn_write".into(), points);
    ev.violations = reported.len() as u64;
    ev.samples = (0..3).map(|i| { let c = gen_case(seed, i * 13); json!({"args": c.args, "kind": c.kind, "wplan": c.wplan}) }).collect();
    ev.exhaustive = false;
    ev.wall_s = t0.elapsed().as_secs_f64();
    if let Err(e) = ev.write(&crate::evidence_path("C18")) {
        eprintln!("HARNESS-ERROR: cannot write evidence: {}", e);
        return 2;
    }
    println!("C18 {} (E2): {} cases, {} fault points (every write attempt), {} delta runs, {} violations, {:.1}s", tier, n, points, runs, reported.len(), ev.wall_s);
    exit
}
