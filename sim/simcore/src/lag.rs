//! Oracle L of C11 (bounded lag), shared by the in-process engine (E2) and the syscall-seam
//! engine (E1).  A quiescence point is (bytes delivered to delta, bytes the consumer was offered).

use crate::gen::{GLine, LineKind};
use crate::report::Violation;
use crate::text::token_visibility;

#[derive(Clone, Copy, Debug, Default)]
pub struct Q {
    pub delivered: usize,
    pub written: usize,
}

#[derive(Default, Clone, Debug)]
pub struct LagStats {
    pub quiescence_checked: u64,
    pub in_hunk_points: u64,
    pub max_held_minus: usize,
    pub max_held_plus: usize,
    pub held_at_bound: u64,
    pub runs_with_long_run_minus: u64,
    pub runs_with_long_run_plus: u64,
}

pub struct Truth {
    /// byte offset just after each line
    pub line_end: Vec<usize>,
    /// raw output offset at which line i's token is visible (None: line has no token)
    pub vis: Vec<Option<usize>>,
    /// max over lines <= i (with token) of vis
    pub maxvis_prefix: Vec<usize>,
}

pub fn truth(lines: &[GLine], out: &[u8]) -> Truth {
    let tv = token_visibility(out);
    let mut line_end = Vec::with_capacity(lines.len());
    let mut off = 0;
    let mut vis = Vec::with_capacity(lines.len());
    let mut maxvis_prefix = Vec::with_capacity(lines.len());
    let mut m = 0usize;
    for l in lines {
        off += l.text.len() + 1;
        line_end.push(off);
        let mut v = l.token.as_ref().map(|t| tv.get(&crate::text::token_num(t)).copied().unwrap_or(usize::MAX));
        // a hunk header's code fragment is shown or hidden by the hunk-header style: it is only
        // required *on time* if it is shown at all
        if l.kind == LineKind::HunkHeader && v == Some(usize::MAX) {
            v = None;
        }
        if let Some(x) = v {
            m = m.max(x);
        }
        vis.push(v);
        maxvis_prefix.push(m);
    }
    Truth { line_end, vis, maxvis_prefix }
}

pub fn in_hunk(k: LineKind) -> bool {
    matches!(k, LineKind::Context | LineKind::Minus | LineKind::Plus | LineKind::NoNewline)
}

/// Oracle L over all quiescence points of one run.
pub fn check_lag(lines: &[GLine], lbs: usize, t: &Truth, qs: &[Q], stats: &mut LagStats, schedule_name: &str) -> Option<Violation> {
    let mut j: isize = -1; // last complete line delivered
    for (qi, q) in qs.iter().enumerate() {
        while ((j + 1) as usize) < lines.len() && t.line_end[(j + 1) as usize] <= q.delivered {
            j += 1;
        }
        stats.quiescence_checked += 1;
        if j < 0 {
            continue;
        }
        let ju = j as usize;
        if !in_hunk(lines[ju].kind) {
            // the input so far ends in a line that is neither a hunk line nor a hunk header (commit
            // header, diff header, ...): no run of changed lines is open, so no hunk line may be held
            if lines[ju].kind == LineKind::Meta && t.maxvis_prefix[ju] > q.written {
                let bad = (0..=ju).find(|i| t.vis[*i].map(|v| v > q.written).unwrap_or(false)).unwrap_or(0);
                return Some(Violation::new(
                    "L-lag",
                    "L:hunk-line-held-after-the-hunk-ended",
                    format!(
                        "[{}] after {} complete input lines (last: {:?} {:?}) no run of changed lines is open, yet line {} ({:?} {:?}) has not been written (quiescence point {}, {} bytes delivered, {} bytes written)",
                        schedule_name, ju + 1, lines[ju].kind, lines[ju].text, bad + 1, lines[bad].kind, lines[bad].text, qi, q.delivered, q.written
                    ),
                ));
            }
            continue;
        }
        stats.in_hunk_points += 1;
        // R_q: maximal trailing run of removed/added lines of this hunk
        let mut r = ju + 1;
        while r > 0 {
            let l = &lines[r - 1];
            if matches!(l.kind, LineKind::Minus | LineKind::Plus) && l.section == lines[ju].section && l.hunk == lines[ju].hunk {
                r -= 1;
            } else {
                break;
            }
        }
        // everything before the run must be visible
        if r > 0 && t.maxvis_prefix[r - 1] > q.written {
            // find the first offending line for the message
            let bad = (0..r).find(|i| t.vis[*i].map(|v| v > q.written).unwrap_or(false)).unwrap_or(0);
            return Some(Violation::new(
                "L-lag",
                "L:line-before-open-run-not-written",
                format!(
                    "[{}] after {} complete input lines (last: {:?} {:?}) the line {} ({:?} {:?}) has not been written yet although it precedes the open run of changed lines (quiescence point {}, {} bytes delivered, {} bytes written)",
                    schedule_name, ju + 1, lines[ju].kind, lines[ju].text, bad + 1, lines[bad].kind, lines[bad].text, qi, q.delivered, q.written
                ),
            ));
        }
        let mut held_minus = 0usize;
        let mut held_plus = 0usize;
        let mut nm = 0usize;
        let mut np = 0usize;
        for i in r..=ju {
            let hidden = t.vis[i].map(|v| v > q.written).unwrap_or(false);
            match lines[i].kind {
                LineKind::Minus => {
                    nm += 1;
                    if hidden {
                        held_minus += 1
                    }
                }
                LineKind::Plus => {
                    np += 1;
                    if hidden {
                        held_plus += 1
                    }
                }
                _ => {}
            }
        }
        if nm > lbs + 1 {
            stats.runs_with_long_run_minus += 1;
        }
        if np > lbs + 1 {
            stats.runs_with_long_run_plus += 1;
        }
        stats.max_held_minus = stats.max_held_minus.max(held_minus);
        stats.max_held_plus = stats.max_held_plus.max(held_plus);
        if held_minus == lbs + 1 || held_plus == lbs + 1 {
            stats.held_at_bound += 1;
        }
        if held_minus > lbs + 1 || held_plus > lbs + 1 {
            return Some(Violation::new(
                "L-lag",
                "L:more-than-buffer-size-plus-one-held",
                format!(
                    "[{}] after {} complete input lines, {} removed and {} added lines of the open run are still unwritten; line-buffer-size is {} (bound {} per side) (quiescence point {}, {} bytes delivered, {} bytes written)",
                    schedule_name, ju + 1, held_minus, held_plus, lbs, lbs + 1, qi, q.delivered, q.written
                ),
            ));
        }
    }
    None
}

