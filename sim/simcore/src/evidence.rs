//! Evidence file writer (schema: /root/.vp/EVIDENCE.schema.json).

use serde_json::{json, Map, Value};
use std::collections::BTreeMap;

pub struct Evidence {
    pub property_id: String,
    pub tier: String,
    pub seed: u64,
    pub level: String,
    pub evaluations: u64,
    pub distinct_nontrivial: u64,
    pub rule: String,
    pub samples: Vec<Value>,
    pub counters: BTreeMap<String, u64>,
    pub extra: Map<String, Value>,
    pub assumptions: Vec<String>,
    pub wall_s: f64,
    pub violations: u64,
    pub exhaustive: bool,
}

impl Evidence {
    pub fn new(property_id: &str, tier: &str, seed: u64, level: &str) -> Self {
        Evidence {
            property_id: property_id.into(),
            tier: tier.into(),
            seed,
            level: level.into(),
            evaluations: 0,
            distinct_nontrivial: 0,
            rule: String::new(),
            samples: Vec::new(),
            counters: BTreeMap::new(),
            extra: Map::new(),
            assumptions: Vec::new(),
            wall_s: 0.0,
            violations: 0,
            exhaustive: false,
        }
    }

    pub fn to_value(&self) -> Value {
        let mut cov = Map::new();
        cov.insert("evaluations".into(), json!(self.evaluations));
        cov.insert("distinct_nontrivial".into(), json!(self.distinct_nontrivial));
        cov.insert("rule".into(), json!(self.rule));
        cov.insert("samples".into(), Value::Array(self.samples.clone()));
        cov.insert("exhaustive".into(), json!(self.exhaustive));
        let mut c = Map::new();
        for (k, v) in &self.counters {
            c.insert(k.clone(), json!(v));
        }
        cov.insert("counters".into(), Value::Object(c));
        let per_hour = |n: u64| -> u64 {
            if self.wall_s > 0.0 {
                (n as f64 * 3600.0 / self.wall_s) as u64
            } else {
                0
            }
        };
        cov.insert("runs_per_hour".into(), json!(per_hour(self.evaluations)));
        for (k, v) in &self.extra {
            cov.insert(k.clone(), v.clone());
        }
        json!({
            "property_id": self.property_id,
            "tier": self.tier,
            "seed": self.seed,
            "level": self.level,
            "coverage": Value::Object(cov),
            "assumptions": self.assumptions,
            "wall_s": self.wall_s,
            "violations": self.violations,
        })
    }

    pub fn write(&self, path: &str) -> std::io::Result<()> {
        if let Some(dir) = std::path::Path::new(path).parent() {
            std::fs::create_dir_all(dir)?;
        }
        let tmp = format!("{}.tmp", path);
        std::fs::write(&tmp, serde_json::to_string_pretty(&self.to_value()).unwrap() + "\n")?;
        std::fs::rename(tmp, path)
    }
}
