//! C13: executable reference model of the documented option precedence, placement generator and
//! encoders — shared by the syscall-seam engine (E1, real binary) and the in-process engine (E2).

use crate::rng::{mix, tag, Rng};
use crate::text::strip_ansi;
use serde::{Deserialize, Serialize};
use std::collections::{BTreeMap, BTreeSet};

pub const BUILTINS: &[&str] = &["color-only", "diff-highlight", "diff-so-fancy", "hyperlinks", "line-numbers", "navigate", "raw", "side-by-side"];

#[derive(Clone, Copy, Debug, PartialEq, Eq)]
pub enum PType {
    Str,
    Float,
    Int,
    Bool,
    /// one of a fixed set of words
    Enum(&'static [&'static str]),
}

pub struct Probe {
    pub name: &'static str,
    pub ty: PType,
    /// (builtin feature, value it sets) — transcribed from the feature definitions / manual
    pub builtin: &'static [(&'static str, &'static str)],
    pub extra_args: &'static [&'static str],
}

pub const PROBES: &[Probe] = &[
    Probe { name: "file-modified-label", ty: PType::Str, builtin: &[("navigate", "Δ")], extra_args: &[] },
    Probe { name: "file-added-label", ty: PType::Str, builtin: &[], extra_args: &[] },
    Probe { name: "max-line-distance", ty: PType::Float, builtin: &[], extra_args: &[] },
    Probe { name: "right-arrow", ty: PType::Str, builtin: &[], extra_args: &[] },
    Probe { name: "tabs", ty: PType::Int, builtin: &[("raw", "0"), ("color-only", "0")], extra_args: &[] },
    Probe { name: "keep-plus-minus-markers", ty: PType::Bool, builtin: &[("raw", "true"), ("color-only", "true")], extra_args: &[] },
    Probe { name: "line-numbers-left-format", ty: PType::Str, builtin: &[("side-by-side", "'│{nm:^4}│'")], extra_args: &["--line-numbers"] },
    Probe { name: "diff-stat-align-width", ty: PType::Int, builtin: &[], extra_args: &[] },
    Probe { name: "file-renamed-label", ty: PType::Str, builtin: &[], extra_args: &[] },
    // Option<String>, enumerations and a numeric option that is parsed from a string
    Probe { name: "pager", ty: PType::Str, builtin: &[], extra_args: &[] },
    Probe { name: "inspect-raw-lines", ty: PType::Enum(&["true", "false"]), builtin: &[], extra_args: &[] },
    // options whose builtin-feature values come from git's colour configuration when it is there
    // (diff-so-fancy: color.diff.meta, diff-highlight / raw: color.diff.commit ...): the values in the
    // table are read from the binary with and without those keys
    // a derived default: with nothing set, --light / --dark decide the theme; any source that sets it wins
    Probe { name: "syntax-theme", ty: PType::Enum(&["Nord", "Dracula", "GitHub", "zenburn", "1337", "OneHalfLight", "TwoDark"]), builtin: &[], extra_args: &[] },
    Probe { name: "file-style", ty: PType::Enum(STYLE_WORDS), builtin: &[("diff-so-fancy", ""), ("raw", ""), ("diff-highlight", "")], extra_args: &[] },
    Probe { name: "commit-style", ty: PType::Enum(STYLE_WORDS), builtin: &[("diff-highlight", ""), ("raw", ""), ("diff-so-fancy", "")], extra_args: &[] },
    // the flags that switch a builtin feature on are options too: wherever such a flag is `true` it
    // also enables the feature (see `eff_flags`), and an explicit `false` at a higher-priority source
    // must win over a `true` (or the builtin feature's own value) further down
    Probe { name: "side-by-side", ty: PType::Bool, builtin: &[("side-by-side", "true")], extra_args: &[] },
    Probe { name: "line-numbers", ty: PType::Bool, builtin: &[("line-numbers", "true")], extra_args: &[] },
    Probe { name: "navigate", ty: PType::Bool, builtin: &[("navigate", "true")], extra_args: &[] },
];

/// The builtin-feature flags a section switches on, in file order, when the probe is itself such a
/// flag: the probe's own line (written after the other flags) counts as a flag when it says `true`
/// and takes the probe out of the list when it says `false`.
pub fn eff_flags(flags: &[String], value: Option<&String>, probe: &str) -> Vec<String> {
    if !is_builtin(probe) || value.is_none() {
        return flags.to_vec();
    }
    let mut f: Vec<String> = flags.iter().filter(|b| *b != probe).cloned().collect();
    if value.map(|v| v == "true").unwrap_or(false) {
        f.push(probe.to_string());
    }
    f
}

/// style values that `--show-config` prints back unchanged
pub const STYLE_WORDS: &[&str] = &["red", "blue", "green", "yellow", "cyan", "white", "bold red", "bold blue"];

/// Two different values of the probe's type that `--show-config` prints back unchanged (used when
/// reading from the binary what the builtin features set: a lower-priority custom feature carries
/// the marker; a builtin that does not set the option lets both markers through).
pub fn calibration_markers(probe: &Probe) -> (String, String) {
    let two = |a: &str, b: &str| (a.to_string(), b.to_string());
    match probe.ty {
        PType::Str => two("CALIBRATION", "CALIBRATION2"),
        PType::Float => two("0.37", "0.41"),
        PType::Int => two("37", "41"),
        PType::Bool => two("true", "false"),
        PType::Enum(words) => two(words[0], words[1 % words.len()]),
    }
}

/// Key of the calibrated default of a placement's probe (the default may depend on `extra_cli`).
pub fn default_key(p: &Placement) -> String {
    if p.extra_cli.is_empty() {
        p.probe.clone()
    } else {
        format!("{}|{}", p.probe, p.extra_cli.join(" "))
    }
}

/// The variants of `extra_cli` that exist for a probe.
pub fn extra_cli_variants(probe: &str) -> Vec<Vec<String>> {
    if probe == "syntax-theme" {
        vec![vec![], vec!["--light".to_string()], vec!["--dark".to_string()]]
    } else {
        vec![vec![]]
    }
}

pub fn reads_git_colors(probe: &str) -> bool {
    probe == "file-style" || probe == "commit-style"
}

pub const GIT_COLORS_TEXT: &str = "[color \"diff\"]\n\tmeta = magenta bold\n\tcommit = cyan ul\n\tfrag = blue\n\told = red bold\n\tnew = green bold\n[color \"diff-highlight\"]\n\toldNormal = red\n\toldHighlight = red 52\n\tnewNormal = green\n\tnewHighlight = green 22\n";

/// The wide-but-shallow part: every other option that can be set in gitconfig (the options handled by
/// the `set_options!` list), observed at the `Opt` level by the in-process engine only (most of them
/// are not part of `--show-config`).  Placements for these use custom features only.
pub struct WideOpt {
    pub probe: Probe,
    /// name of the field of `cli::Opt`
    pub field: &'static str,
    /// the field is an `Option<String>`
    pub optional: bool,
}

// generated once from src/cli.rs and the set_options! list of src/options/set.rs at the pinned commit (see DESIGN §13)
pub const WIDE: &[WideOpt] = &[
    WideOpt { probe: Probe { name: "blame-code-style", ty: PType::Enum(&["red", "blue bold", "green", "yellow italic", "magenta", "cyan ul", "white", "black bold"]), builtin: &[], extra_args: &[] }, field: "blame_code_style", optional: true },
    WideOpt { probe: Probe { name: "blame-format", ty: PType::Str, builtin: &[], extra_args: &[] }, field: "blame_format", optional: false },
    WideOpt { probe: Probe { name: "blame-palette", ty: PType::Enum(&["#111111 #222222", "#333333", "#444444 #555555 #666666", "#777777", "#888888 #999999", "#aaaaaa"]), builtin: &[], extra_args: &[] }, field: "blame_palette", optional: true },
    WideOpt { probe: Probe { name: "blame-separator-format", ty: PType::Str, builtin: &[], extra_args: &[] }, field: "blame_separator_format", optional: false },
    WideOpt { probe: Probe { name: "blame-separator-style", ty: PType::Enum(&["red", "blue bold", "green", "yellow italic", "magenta", "cyan ul", "white", "black bold"]), builtin: &[], extra_args: &[] }, field: "blame_separator_style", optional: true },
    WideOpt { probe: Probe { name: "blame-timestamp-format", ty: PType::Str, builtin: &[], extra_args: &[] }, field: "blame_timestamp_format", optional: false },
    WideOpt { probe: Probe { name: "blame-timestamp-output-format", ty: PType::Str, builtin: &[], extra_args: &[] }, field: "blame_timestamp_output_format", optional: true },
    WideOpt { probe: Probe { name: "commit-decoration-style", ty: PType::Enum(&["red box", "blue ul", "green ol", "yellow box ul", "magenta ul ol", "cyan box", "white ul", "none"]), builtin: &[], extra_args: &[] }, field: "commit_decoration_style", optional: false },
    WideOpt { probe: Probe { name: "commit-regex", ty: PType::Str, builtin: &[], extra_args: &[] }, field: "commit_regex", optional: false },
    WideOpt { probe: Probe { name: "default-language", ty: PType::Enum(&["rs", "py", "js", "go", "rb", "c"]), builtin: &[], extra_args: &[] }, field: "default_language", optional: false },
    WideOpt { probe: Probe { name: "diff-args", ty: PType::Enum(&["-U5", "-U7", "-U9", "--minimal", "-U11", "-U13"]), builtin: &[], extra_args: &[] }, field: "diff_args", optional: false },
    WideOpt { probe: Probe { name: "file-copied-label", ty: PType::Str, builtin: &[], extra_args: &[] }, field: "file_copied_label", optional: false },
    WideOpt { probe: Probe { name: "file-decoration-style", ty: PType::Enum(&["red box", "blue ul", "green ol", "yellow box ul", "magenta ul ol", "cyan box", "white ul", "none"]), builtin: &[], extra_args: &[] }, field: "file_decoration_style", optional: false },
    WideOpt { probe: Probe { name: "file-removed-label", ty: PType::Str, builtin: &[], extra_args: &[] }, field: "file_removed_label", optional: false },
    WideOpt { probe: Probe { name: "file-transformation", ty: PType::Enum(&["s/a/b/", "s/c/d/", "s/e/f/", "s/g/h/", "s/i/j/", "s/k/l/"]), builtin: &[], extra_args: &[] }, field: "file_regex_replacement", optional: true },
    WideOpt { probe: Probe { name: "grep-context-line-style", ty: PType::Enum(&["red", "blue bold", "green", "yellow italic", "magenta", "cyan ul", "white", "black bold"]), builtin: &[], extra_args: &[] }, field: "grep_context_line_style", optional: true },
    WideOpt { probe: Probe { name: "grep-file-style", ty: PType::Enum(&["red", "blue bold", "green", "yellow italic", "magenta", "cyan ul", "white", "black bold"]), builtin: &[], extra_args: &[] }, field: "grep_file_style", optional: false },
    WideOpt { probe: Probe { name: "grep-header-decoration-style", ty: PType::Enum(&["red box", "blue ul", "green ol", "yellow box ul", "magenta ul ol", "cyan box", "white ul", "none"]), builtin: &[], extra_args: &[] }, field: "grep_header_decoration_style", optional: true },
    WideOpt { probe: Probe { name: "grep-header-file-style", ty: PType::Enum(&["red", "blue bold", "green", "yellow italic", "magenta", "cyan ul", "white", "black bold"]), builtin: &[], extra_args: &[] }, field: "grep_header_file_style", optional: true },
    WideOpt { probe: Probe { name: "grep-line-number-style", ty: PType::Enum(&["red", "blue bold", "green", "yellow italic", "magenta", "cyan ul", "white", "black bold"]), builtin: &[], extra_args: &[] }, field: "grep_line_number_style", optional: false },
    WideOpt { probe: Probe { name: "grep-output-type", ty: PType::Enum(&["ripgrep", "classic"]), builtin: &[], extra_args: &[] }, field: "grep_output_type", optional: true },
    WideOpt { probe: Probe { name: "grep-match-line-style", ty: PType::Enum(&["red", "blue bold", "green", "yellow italic", "magenta", "cyan ul", "white", "black bold"]), builtin: &[], extra_args: &[] }, field: "grep_match_line_style", optional: true },
    WideOpt { probe: Probe { name: "grep-match-word-style", ty: PType::Enum(&["red", "blue bold", "green", "yellow italic", "magenta", "cyan ul", "white", "black bold"]), builtin: &[], extra_args: &[] }, field: "grep_match_word_style", optional: true },
    WideOpt { probe: Probe { name: "grep-separator-symbol", ty: PType::Str, builtin: &[], extra_args: &[] }, field: "grep_separator_symbol", optional: false },
    WideOpt { probe: Probe { name: "hunk-header-decoration-style", ty: PType::Enum(&["red box", "blue ul", "green ol", "yellow box ul", "magenta ul ol", "cyan box", "white ul", "none"]), builtin: &[], extra_args: &[] }, field: "hunk_header_decoration_style", optional: false },
    WideOpt { probe: Probe { name: "hunk-header-file-style", ty: PType::Enum(&["red", "blue bold", "green", "yellow italic", "magenta", "cyan ul", "white", "black bold"]), builtin: &[], extra_args: &[] }, field: "hunk_header_file_style", optional: false },
    WideOpt { probe: Probe { name: "hunk-header-line-number-style", ty: PType::Enum(&["red", "blue bold", "green", "yellow italic", "magenta", "cyan ul", "white", "black bold"]), builtin: &[], extra_args: &[] }, field: "hunk_header_line_number_style", optional: false },
    WideOpt { probe: Probe { name: "hunk-header-style", ty: PType::Enum(&["red", "blue bold", "green", "yellow italic", "magenta", "cyan ul", "white", "black bold"]), builtin: &[], extra_args: &[] }, field: "hunk_header_style", optional: false },
    WideOpt { probe: Probe { name: "hunk-label", ty: PType::Str, builtin: &[], extra_args: &[] }, field: "hunk_label", optional: false },
    WideOpt { probe: Probe { name: "hyperlinks-commit-link-format", ty: PType::Str, builtin: &[], extra_args: &[] }, field: "hyperlinks_commit_link_format", optional: true },
    WideOpt { probe: Probe { name: "hyperlinks-file-link-format", ty: PType::Str, builtin: &[], extra_args: &[] }, field: "hyperlinks_file_link_format", optional: false },
    WideOpt { probe: Probe { name: "inline-hint-style", ty: PType::Enum(&["red", "blue bold", "green", "yellow italic", "magenta", "cyan ul", "white", "black bold"]), builtin: &[], extra_args: &[] }, field: "inline_hint_style", optional: false },
    WideOpt { probe: Probe { name: "line-buffer-size", ty: PType::Int, builtin: &[], extra_args: &[] }, field: "line_buffer_size", optional: false },
    WideOpt { probe: Probe { name: "line-fill-method", ty: PType::Enum(&["ansi", "spaces"]), builtin: &[], extra_args: &[] }, field: "line_fill_method", optional: true },
    WideOpt { probe: Probe { name: "line-numbers-left-style", ty: PType::Enum(&["red", "blue bold", "green", "yellow italic", "magenta", "cyan ul", "white", "black bold"]), builtin: &[], extra_args: &[] }, field: "line_numbers_left_style", optional: false },
    WideOpt { probe: Probe { name: "line-numbers-minus-style", ty: PType::Enum(&["red", "blue bold", "green", "yellow italic", "magenta", "cyan ul", "white", "black bold"]), builtin: &[], extra_args: &[] }, field: "line_numbers_minus_style", optional: false },
    WideOpt { probe: Probe { name: "line-numbers-plus-style", ty: PType::Enum(&["red", "blue bold", "green", "yellow italic", "magenta", "cyan ul", "white", "black bold"]), builtin: &[], extra_args: &[] }, field: "line_numbers_plus_style", optional: false },
    WideOpt { probe: Probe { name: "line-numbers-right-format", ty: PType::Str, builtin: &[], extra_args: &[] }, field: "line_numbers_right_format", optional: false },
    WideOpt { probe: Probe { name: "line-numbers-right-style", ty: PType::Enum(&["red", "blue bold", "green", "yellow italic", "magenta", "cyan ul", "white", "black bold"]), builtin: &[], extra_args: &[] }, field: "line_numbers_right_style", optional: false },
    WideOpt { probe: Probe { name: "line-numbers-zero-style", ty: PType::Enum(&["red", "blue bold", "green", "yellow italic", "magenta", "cyan ul", "white", "black bold"]), builtin: &[], extra_args: &[] }, field: "line_numbers_zero_style", optional: false },
    WideOpt { probe: Probe { name: "map-styles", ty: PType::Enum(&["bold purple => red", "bold blue => green", "bold cyan => yellow", "bold red => blue", "italic red => cyan", "ul green => red"]), builtin: &[], extra_args: &[] }, field: "map_styles", optional: true },
    WideOpt { probe: Probe { name: "max-syntax-highlighting-length", ty: PType::Int, builtin: &[], extra_args: &[] }, field: "max_syntax_length", optional: false },
    WideOpt { probe: Probe { name: "max-line-length", ty: PType::Int, builtin: &[], extra_args: &[] }, field: "max_line_length", optional: false },
    WideOpt { probe: Probe { name: "merge-conflict-begin-symbol", ty: PType::Str, builtin: &[], extra_args: &[] }, field: "merge_conflict_begin_symbol", optional: false },
    WideOpt { probe: Probe { name: "merge-conflict-end-symbol", ty: PType::Str, builtin: &[], extra_args: &[] }, field: "merge_conflict_end_symbol", optional: false },
    WideOpt { probe: Probe { name: "merge-conflict-ours-diff-header-decoration-style", ty: PType::Enum(&["red box", "blue ul", "green ol", "yellow box ul", "magenta ul ol", "cyan box", "white ul", "none"]), builtin: &[], extra_args: &[] }, field: "merge_conflict_ours_diff_header_decoration_style", optional: false },
    WideOpt { probe: Probe { name: "merge-conflict-ours-diff-header-style", ty: PType::Enum(&["red", "blue bold", "green", "yellow italic", "magenta", "cyan ul", "white", "black bold"]), builtin: &[], extra_args: &[] }, field: "merge_conflict_ours_diff_header_style", optional: false },
    WideOpt { probe: Probe { name: "merge-conflict-theirs-diff-header-decoration-style", ty: PType::Enum(&["red box", "blue ul", "green ol", "yellow box ul", "magenta ul ol", "cyan box", "white ul", "none"]), builtin: &[], extra_args: &[] }, field: "merge_conflict_theirs_diff_header_decoration_style", optional: false },
    WideOpt { probe: Probe { name: "merge-conflict-theirs-diff-header-style", ty: PType::Enum(&["red", "blue bold", "green", "yellow italic", "magenta", "cyan ul", "white", "black bold"]), builtin: &[], extra_args: &[] }, field: "merge_conflict_theirs_diff_header_style", optional: false },
    WideOpt { probe: Probe { name: "minus-empty-line-marker-style", ty: PType::Enum(&["red", "blue bold", "green", "yellow italic", "magenta", "cyan ul", "white", "black bold"]), builtin: &[], extra_args: &[] }, field: "minus_empty_line_marker_style", optional: false },
    WideOpt { probe: Probe { name: "minus-emph-style", ty: PType::Enum(&["red", "blue bold", "green", "yellow italic", "magenta", "cyan ul", "white", "black bold"]), builtin: &[], extra_args: &[] }, field: "minus_emph_style", optional: false },
    WideOpt { probe: Probe { name: "minus-non-emph-style", ty: PType::Enum(&["red", "blue bold", "green", "yellow italic", "magenta", "cyan ul", "white", "black bold"]), builtin: &[], extra_args: &[] }, field: "minus_non_emph_style", optional: false },
    WideOpt { probe: Probe { name: "minus-style", ty: PType::Enum(&["red", "blue bold", "green", "yellow italic", "magenta", "cyan ul", "white", "black bold"]), builtin: &[], extra_args: &[] }, field: "minus_style", optional: false },
    WideOpt { probe: Probe { name: "navigate-regex", ty: PType::Str, builtin: &[], extra_args: &[] }, field: "navigate_regex", optional: true },
    WideOpt { probe: Probe { name: "paging", ty: PType::Enum(&["always", "never", "auto"]), builtin: &[], extra_args: &[] }, field: "paging_mode", optional: false },
    WideOpt { probe: Probe { name: "parse-ansi", ty: PType::Bool, builtin: &[], extra_args: &[] }, field: "parse_ansi", optional: false },
    WideOpt { probe: Probe { name: "plus-emph-style", ty: PType::Enum(&["red", "blue bold", "green", "yellow italic", "magenta", "cyan ul", "white", "black bold"]), builtin: &[], extra_args: &[] }, field: "plus_emph_style", optional: false },
    WideOpt { probe: Probe { name: "plus-empty-line-marker-style", ty: PType::Enum(&["red", "blue bold", "green", "yellow italic", "magenta", "cyan ul", "white", "black bold"]), builtin: &[], extra_args: &[] }, field: "plus_empty_line_marker_style", optional: false },
    WideOpt { probe: Probe { name: "plus-non-emph-style", ty: PType::Enum(&["red", "blue bold", "green", "yellow italic", "magenta", "cyan ul", "white", "black bold"]), builtin: &[], extra_args: &[] }, field: "plus_non_emph_style", optional: false },
    WideOpt { probe: Probe { name: "plus-style", ty: PType::Enum(&["red", "blue bold", "green", "yellow italic", "magenta", "cyan ul", "white", "black bold"]), builtin: &[], extra_args: &[] }, field: "plus_style", optional: false },
    WideOpt { probe: Probe { name: "relative-paths", ty: PType::Bool, builtin: &[], extra_args: &[] }, field: "relative_paths", optional: false },
    WideOpt { probe: Probe { name: "true-color", ty: PType::Enum(&["always", "never", "auto"]), builtin: &[], extra_args: &[] }, field: "true_color", optional: false },
    WideOpt { probe: Probe { name: "whitespace-error-style", ty: PType::Enum(&["red", "blue bold", "green", "yellow italic", "magenta", "cyan ul", "white", "black bold"]), builtin: &[], extra_args: &[] }, field: "whitespace_error_style", optional: false },
    WideOpt { probe: Probe { name: "word-diff-regex", ty: PType::Str, builtin: &[], extra_args: &[] }, field: "tokenization_regex", optional: false },
    WideOpt { probe: Probe { name: "wrap-left-symbol", ty: PType::Str, builtin: &[], extra_args: &[] }, field: "wrap_left_symbol", optional: false },
    WideOpt { probe: Probe { name: "wrap-max-lines", ty: PType::Enum(&["3", "5", "7", "unlimited", "4", "6"]), builtin: &[], extra_args: &[] }, field: "wrap_max_lines", optional: false },
    WideOpt { probe: Probe { name: "wrap-right-percent", ty: PType::Enum(&["20.0", "30.5", "44.0", "51.0", "12.5", "61.0"]), builtin: &[], extra_args: &[] }, field: "wrap_right_percent", optional: false },
    WideOpt { probe: Probe { name: "wrap-right-prefix-symbol", ty: PType::Str, builtin: &[], extra_args: &[] }, field: "wrap_right_prefix_symbol", optional: false },
    WideOpt { probe: Probe { name: "wrap-right-symbol", ty: PType::Str, builtin: &[], extra_args: &[] }, field: "wrap_right_symbol", optional: false },
    WideOpt { probe: Probe { name: "zero-style", ty: PType::Enum(&["red", "blue bold", "green", "yellow italic", "magenta", "cyan ul", "white", "black bold"]), builtin: &[], extra_args: &[] }, field: "zero_style", optional: false },
];


pub fn probe_by_name(name: &str) -> &'static Probe {
    PROBES.iter().find(|x| x.name == name).unwrap_or_else(|| &WIDE.iter().find(|w| w.probe.name == name).expect("probe").probe)
}

pub fn wide_by_name(name: &str) -> Option<&'static WideOpt> {
    WIDE.iter().find(|w| w.probe.name == name)
}

/// Source kinds that involve no builtin feature (a builtin feature may set any option).
pub const CUSTOM_KINDS: &[&str] = &["cli", "main", "envparam", "custom-cli-features", "custom-env-features", "custom-plusenv-features", "custom-main-features", "custom-envparam-features", "custom-child", "custom-grandchild", "custom-cycle", "custom-self-loop"];

/// Every single custom source kind and every unordered pair of them, for every wide option.
pub fn lattice_wide(seed: u64) -> Vec<Placement> {
    let mut out = Vec::new();
    let mut n = 0u64;
    for w in WIDE {
        for (i, a) in CUSTOM_KINDS.iter().enumerate() {
            for bk in CUSTOM_KINDS[i..].iter() {
                n += 1;
                let mut rng = Rng::new(mix(seed, &[tag("C13"), tag("wide"), n]));
                let mut b = Builder::new(&w.probe);
                let (first, second) = if n % 2 == 0 { (a, bk) } else { (bk, a) };
                let ok1 = b.add(&mut rng, first);
                let ok2 = b.add(&mut rng, second);
                if !(ok1 || ok2) {
                    continue;
                }
                b.p.no_gitconfig = n % 23 == 0;
                b.p.sloppy_ws = n % 7 == 0;
                out.push(b.p);
            }
        }
    }
    out
}

#[derive(Clone, Debug, Default, Serialize, Deserialize, PartialEq)]
pub struct Section {
    pub value: Option<String>,
    /// `features = ...` in this section
    pub features: Option<Vec<String>>,
    /// builtin feature flags set to true in this section, in file order
    pub flags: Vec<String>,
}

#[derive(Clone, Debug, Default, Serialize, Deserialize, PartialEq)]
pub struct Placement {
    pub probe: String,
    pub cli_value: Option<String>,
    pub envparam_value: Option<String>,
    pub main: Section,
    pub envparam_features: Option<Vec<String>>,
    /// builtin feature flags set to true through GIT_CONFIG_PARAMETERS (`git -c delta.navigate=true`)
    #[serde(default)]
    pub envparam_flags: Vec<String>,
    /// the gitconfig also has git's own colour settings (`[color "diff"] meta = ...`), from which
    /// some builtin features take the values they set
    #[serde(default)]
    pub git_colors: bool,
    /// further command-line arguments that do not set the probe themselves but decide what its
    /// built-in default is (`--light` / `--dark` for syntax-theme)
    #[serde(default)]
    pub extra_cli: Vec<String>,
    /// [delta "<name>"] sections
    pub custom: BTreeMap<String, Section>,
    pub cli_features: Option<Vec<String>>,
    /// (has leading '+', names)
    pub env_features: Option<(bool, Vec<String>)>,
    pub cli_flags: Vec<String>,
    pub no_gitconfig: bool,
    /// pass the gitconfig with --config instead of $HOME/.gitconfig
    pub via_config_flag: bool,
    /// feature lists are written with irregular whitespace (double blanks, leading/trailing blanks)
    #[serde(default)]
    pub sloppy_ws: bool,
    /// labels of the sources that were placed (for coverage accounting)
    pub sources: Vec<String>,
}

pub fn is_builtin(f: &str) -> bool {
    BUILTINS.contains(&f)
}

/// Tie-break policy for the orders the documentation leaves open.
#[derive(Clone, Copy, Debug)]
pub struct Policy {
    pub flags_reversed: bool,
    pub plus_env_reversed: bool,
    pub plus_env_after_cli: bool,
}

pub fn policies() -> Vec<Policy> {
    let mut v = Vec::new();
    for a in [false, true] {
        for b in [false, true] {
            for c in [false, true] {
                v.push(Policy { flags_reversed: a, plus_env_reversed: b, plus_env_after_cli: c });
            }
        }
    }
    v
}

/// Reference model: feature list in decreasing priority.
pub fn feature_list(p: &Placement, pol: Policy) -> Vec<String> {
    let gc = !p.no_gitconfig;
    let mut list: Vec<String> = Vec::new();

    fn add_builtin(list: &mut Vec<String>, b: &str) {
        if list.iter().any(|x| x == b) {
            return;
        }
        list.push(b.to_string());
        if b == "side-by-side" {
            add_builtin(list, "line-numbers");
        }
    }
    fn ordered(flags: &[String], pol: Policy) -> Vec<String> {
        let mut f: Vec<String> = flags.to_vec();
        if pol.flags_reversed {
            f.reverse();
        }
        f
    }
    fn add_feature(list: &mut Vec<String>, p: &Placement, f: &str, gc: bool, pol: Policy, depth: usize) {
        if depth > 20 {
            return;
        }
        if is_builtin(f) {
            add_builtin(list, f);
        } else {
            list.push(f.to_string());
        }
        if !gc {
            return;
        }
        if let Some(sec) = p.custom.get(f) {
            if let Some(children) = &sec.features {
                for c in children.iter().rev() {
                    if !list.iter().any(|x| x == c) {
                        add_feature(list, p, c, gc, pol, depth + 1);
                    }
                }
            }
            for b in ordered(&eff_flags(&sec.flags, sec.value.as_ref(), &p.probe), pol) {
                add_builtin(list, &b);
            }
        }
    }

    // 1. --features / DELTA_FEATURES
    let cli: Vec<String> = p.cli_features.clone().unwrap_or_default();
    let mut replaced = false;
    let mut inputs: Vec<String> = Vec::new();
    match &p.env_features {
        Some((true, e)) => {
            let mut env_part: Vec<String> = e.clone();
            if pol.plus_env_reversed {
                env_part.reverse();
            }
            let cli_part: Vec<String> = cli.iter().rev().cloned().collect();
            if pol.plus_env_after_cli {
                inputs.extend(cli_part);
                inputs.extend(env_part);
            } else {
                inputs.extend(env_part);
                inputs.extend(cli_part);
            }
        }
        Some((false, e)) => {
            replaced = true;
            inputs.extend(e.iter().rev().cloned());
        }
        None => inputs.extend(cli.iter().rev().cloned()),
    }
    for f in &inputs {
        add_feature(&mut list, p, f, gc, pol, 0);
    }
    // 2. builtin feature flags on the command line
    for b in ordered(&eff_flags(&p.cli_flags, p.cli_value.as_ref(), &p.probe), pol) {
        add_builtin(&mut list, &b);
    }
    if gc {
        // 3. delta.features of the main section, unless --features (or a replacing DELTA_FEATURES) was given
        if p.cli_features.is_none() && !replaced {
            let mf = p.envparam_features.clone().or_else(|| p.main.features.clone());
            if let Some(mf) = mf {
                for f in mf.iter().rev() {
                    add_feature(&mut list, p, f, gc, pol, 0);
                }
            }
        }
        // 4. builtin feature flags in the main section (the file and GIT_CONFIG_PARAMETERS are one section)
        let mut mf = p.main.flags.clone();
        for b in &p.envparam_flags {
            if !mf.contains(b) {
                mf.push(b.clone());
            }
        }
        // the probe's own line in the main section (GIT_CONFIG_PARAMETERS overriding the file)
        let main_value = p.envparam_value.as_ref().or(p.main.value.as_ref());
        let mf = eff_flags(&mf, main_value, &p.probe);
        for b in ordered(&mf, pol) {
            add_builtin(&mut list, &b);
        }
    }
    list
}

/// Values the builtin features give to the probe options, read from the binary itself by
/// single-source runs (`--no-gitconfig --features <builtin> --show-config`): what a builtin
/// feature sets is data, not precedence, and must not cause an alarm when it legitimately changes.
pub type BuiltinTable = BTreeMap<(String, String), String>;

/// The value a section gives to the probe: its own line, or, for a probe that is itself the flag of
/// a builtin feature, that flag among the section's flags.
pub fn eff_value(flags: &[String], value: Option<&String>, probe: &str) -> Option<String> {
    match value {
        Some(v) => Some(v.clone()),
        None if is_builtin(probe) && flags.iter().any(|b| b == probe) => Some("true".to_string()),
        None => None,
    }
}

pub fn expected(p: &Placement, probe: &Probe, default: &str, pol: Policy, table: &BuiltinTable) -> String {
    if let Some(v) = eff_value(&p.cli_flags, p.cli_value.as_ref(), &p.probe) {
        return v;
    }
    let gc = !p.no_gitconfig;
    if gc {
        if let Some(v) = eff_value(&p.envparam_flags, p.envparam_value.as_ref(), &p.probe) {
            return v;
        }
        if let Some(v) = eff_value(&p.main.flags, p.main.value.as_ref(), &p.probe) {
            return v;
        }
    }
    for f in feature_list(p, pol) {
        if gc {
            if let Some(sec) = p.custom.get(&f) {
                if let Some(v) = eff_value(&sec.flags, sec.value.as_ref(), &p.probe) {
                    return v;
                }
            }
        }
        // side-by-side gives `line-numbers` its value only by enabling the feature line-numbers, which
        // is in the list in its own right (with its custom section in front of it); the calibration,
        // which sees `--features "fz side-by-side"` end in `true`, cannot tell that from a value
        if probe.name == "line-numbers" && f == "side-by-side" {
            continue;
        }
        if gc && p.git_colors {
            if let Some(v) = table.get(&(probe.name.to_string(), format!("{}+git-colors", f))) {
                return v.clone();
            }
        }
        if let Some(v) = table.get(&(probe.name.to_string(), f.clone())) {
            return v.clone();
        }
    }
    default.to_string()
}

pub fn acceptable(p: &Placement, probe: &Probe, default: &str, table: &BuiltinTable) -> BTreeSet<String> {
    policies().into_iter().map(|pol| expected(p, probe, default, pol, table)).collect()
}

// ---------------------------------------------------------------------------
// encoding a placement as a run

pub fn section_text(name: Option<&str>, probe: &str, s: &Section) -> String {
    section_text_styled(name, probe, s, 0)
}

/// How a placement's gitconfig file is spelled (a function of the placement): git's configuration
/// syntax allows several spellings of the same content, and which one is used must not matter.
/// 0 plain; 1 section and key names in mixed case (they are case-insensitive; subsection names are
/// not and stay as they are); 2 other spellings of `true` for flags (yes / on / 1 / the bare key)
/// and, for string options, an earlier assignment of the same key in the same section (the last one
/// wins); 3 the section split in two blocks with the same header.
pub fn spelling_of(p: &Placement) -> u64 {
    // low two bits: the style; the bits above: where the rotation of the spellings of `true` starts
    let h = crate::rng::fnv64(format!("spell|{}|{:?}|{}", p.probe, p.sources, p.custom.len()).as_bytes());
    (h % 4) + 4 * ((h >> 8) % 4)
}

pub fn section_text_styled(name: Option<&str>, probe: &str, s: &Section, style: u64) -> String {
    let rot = (style / 4) as usize;
    let style = style % 4;
    let mixed = |k: &str| -> String {
        let mut up = true;
        k.chars()
            .map(|c| {
                let r = if up { c.to_ascii_uppercase() } else { c };
                up = c == '-';
                r
            })
            .collect()
    };
    let header = match (name, style) {
        (None, 1) => "[Delta]\n".to_string(),
        (None, _) => "[delta]\n".to_string(),
        (Some(n), 1) => format!("[DELTA \"{}\"]\n", n),
        (Some(n), _) => format!("[delta \"{}\"]\n", n),
    };
    let key = |k: &str| if style == 1 { mixed(k) } else { k.to_string() };
    let mut t = header.clone();
    // vary the position of the entries inside the section: flags first, value, features
    let own_line = is_builtin(probe) && s.value.is_some();
    for (i, b) in s.flags.iter().filter(|b| !(own_line && *b == probe)).enumerate() {
        if style == 2 {
            match (i + rot) % 4 {
                0 => t.push_str(&format!("\t{} = yes\n", b)),
                1 => t.push_str(&format!("\t{}\n", b)),
                2 => t.push_str(&format!("\t{} = on\n", b)),
                _ => t.push_str(&format!("\t{} = 1\n", b)),
            }
        } else {
            t.push_str(&format!("\t{} = true\n", key(b)));
        }
    }
    if style == 3 && !s.flags.is_empty() && (s.value.is_some() || s.features.is_some()) {
        t.push_str(&header);
    }
    if let Some(v) = &s.value {
        if style == 2 && probe_by_name(probe).ty == PType::Str {
            t.push_str(&format!("\t{} = earlier-assignment-that-loses\n", probe));
        }
        // git's other spellings of a boolean value
        let respelt;
        let v = if style == 2 && probe_by_name(probe).ty == PType::Bool {
            respelt = match (v.as_str(), rot % 3) {
                ("true", 0) => "yes",
                ("true", 1) => "on",
                ("true", _) => "1",
                ("false", 0) => "no",
                ("false", 1) => "off",
                ("false", _) => "0",
                (other, _) => other,
            }
            .to_string();
            &respelt
        } else {
            v
        };
        // `#` and `;` start a comment in a git config file unless the value is quoted
        if v.contains('#') || v.contains(';') {
            t.push_str(&format!("\t{} = \"{}\"\n", key(probe), v));
        } else {
            t.push_str(&format!("\t{} = {}\n", key(probe), v));
        }
    }
    if style == 3 && s.value.is_some() && s.features.is_some() {
        t.push_str(&header);
    }
    if let Some(f) = &s.features {
        t.push_str(&format!("\t{} = {}\n", key("features"), f.join(" ")));
    }
    t
}

pub fn join_features(f: &[String], sloppy: bool) -> String {
    if sloppy && !f.is_empty() {
        // several blanks, a tab, leading and trailing blanks; a list with a repeated separator style
        let mut t = String::from(" ");
        for (i, x) in f.iter().enumerate() {
            if i > 0 {
                t.push_str(if i % 2 == 1 { "   " } else { "\t " });
            }
            t.push_str(x);
        }
        t.push_str("  ");
        t
    } else {
        f.join(" ")
    }
}

pub fn gitconfig_text(p: &Placement) -> String {
    let mut t = String::new();
    let main_empty = p.main.value.is_none() && p.main.features.is_none() && p.main.flags.is_empty();
    // custom sections before or after the main one must not matter: alternate by a hash of the probe
    if p.git_colors {
        t.push_str(GIT_COLORS_TEXT);
    }
    let style = spelling_of(p);
    let mut custom = String::new();
    for (n, s) in &p.custom {
        custom.push_str(&section_text_styled(Some(n), &p.probe, s, style));
    }
    if p.custom.len() % 2 == 0 {
        if !main_empty {
            t.push_str(&section_text_styled(None, &p.probe, &p.main, style));
        }
        t.push_str(&custom);
    } else {
        t.push_str(&custom);
        if !main_empty {
            t.push_str(&section_text_styled(None, &p.probe, &p.main, style));
        }
    }
    t
}


/// A placement as the things a run is made of: arguments (without the final --show-config
/// bookkeeping being special), environment and the gitconfig text.
pub struct Encoded {
    pub args: Vec<String>,
    pub env: Vec<(String, String)>,
    pub gitconfig: String,
}

pub fn encode(p: &Placement, config_path: Option<&str>) -> Encoded {
    let probe = probe_by_name(&p.probe);
    let is_wide = wide_by_name(&p.probe).is_some();
    let mut args: Vec<String> = Vec::new();
    let mut env: Vec<(String, String)> = Vec::new();
    if p.no_gitconfig {
        args.push("--no-gitconfig".into());
    }
    let gc = gitconfig_text(p);
    if let Some(path) = config_path {
        args.push("--config".into());
        args.push(path.into());
    }
    if let Some(f) = &p.cli_features {
        args.push("--features".into());
        args.push(join_features(f, p.sloppy_ws));
    }
    for b in &p.cli_flags {
        if *b == p.probe && p.cli_value.is_some() {
            continue;
        }
        args.push(format!("--{}", b));
    }
    for a in &p.extra_cli {
        args.push(a.clone());
    }
    for a in probe.extra_args {
        if !args.iter().any(|x| x == a) {
            args.push((*a).into());
        }
    }
    if let Some(v) = &p.cli_value {
        if probe.ty == PType::Bool {
            args.push(format!("--{}", p.probe));
        } else if is_wide {
            // values may begin with a dash (--diff-args=-U5)
            args.push(format!("--{}={}", p.probe, v));
        } else {
            args.push(format!("--{}", p.probe));
            args.push(v.clone());
        }
    }
    args.push("--width".into());
    args.push("100".into());
    args.push("--show-config".into());
    if let Some((plus, f)) = &p.env_features {
        env.push(("DELTA_FEATURES".into(), format!("{}{}", if *plus { "+" } else { "" }, join_features(f, p.sloppy_ws && (*plus || !f.is_empty())))));
    }
    let mut params = Vec::new();
    // both syntaxes git has used: 'key=value' (< 2.31) and 'key'='value'
    let new_syntax = p.sloppy_ws || p.custom.len() % 2 == 1;
    let param = |k: &str, v: &str| if new_syntax { format!("'{}'='{}'", k, v) } else { format!("'{}={}'", k, v) };
    if let Some(v) = &p.envparam_value {
        // the same key twice (`git -c delta.x=a -c delta.x=b`): the last entry counts
        if probe.ty == PType::Str && spelling_of(p) % 2 == 1 {
            // ... half of the time in the other of the two syntaxes git has used
            let k = format!("delta.{}", p.probe);
            let other = (spelling_of(p) / 4) % 2 == 1;
            if other == new_syntax {
                params.push(format!("'{}={}'", k, "earlier-entry-that-loses"));
            } else {
                params.push(format!("'{}'='{}'", k, "earlier-entry-that-loses"));
            }
        }
        params.push(param(&format!("delta.{}", p.probe), v));
    }
    if let Some(f) = &p.envparam_features {
        params.push(param("delta.features", &f.join(" ")));
    }
    for b in &p.envparam_flags {
        if *b == p.probe && p.envparam_value.is_some() {
            continue;
        }
        params.push(param(&format!("delta.{}", b), "true"));
    }
    if !params.is_empty() && p.custom.len() % 3 == 0 {
        // unrelated entries around them, as git produces for `git -c a=b -c delta.x=y`
        params.insert(0, "'color.ui=always'".to_string());
        params.push("'core.quotepath'='false'".to_string());
    }
    if !params.is_empty() {
        env.push(("GIT_CONFIG_PARAMETERS".into(), params.join(" ")));
    }
    Encoded { args, env, gitconfig: gc }
}

pub fn shown_value(stdout: &[u8], probe: &str) -> Option<String> {
    let text = String::from_utf8_lossy(&strip_ansi(stdout)).to_string();
    for line in text.lines() {
        let l = line.trim_start();
        if let Some(rest) = l.strip_prefix(probe) {
            let rest = rest.trim_start();
            if let Some(v) = rest.strip_prefix("= ") {
                return Some(v.to_string());
            } else if rest == "=" {
                return Some(String::new());
            }
        }
    }
    None
}

// ---------------------------------------------------------------------------
// placement generation: source kinds

pub const SOURCE_KINDS: &[&str] = &[
    "cli",
    "main",
    "envparam",
    "custom-cli-features",
    "custom-env-features",
    "custom-plusenv-features",
    "custom-main-features",
    "custom-envparam-features",
    "custom-child",
    "custom-grandchild",
    "custom-cycle",
    "custom-self-loop",
    "builtin-cli-flag",
    "builtin-main-flag",
    "builtin-envparam-flag",
    "builtin-in-cli-features",
    "builtin-in-env-features",
    "builtin-in-main-features",
    "builtin-flag-in-custom",
    "builtin-child-of-custom",
    "custom-section-named-as-builtin",
    "repeat-mention-same-list",
    "repeat-mention-other-list",
    "repeat-mention-as-child",
    "builtin-named-section-with-child",
    "empty-cli-features",
    "plus-only-env-features",
    "builtin-flag-in-grandchild",
];

pub struct Builder<'a> {
    pub p: Placement,
    probe: &'a Probe,
    n_custom: usize,
    n_val: usize,
    enum_start: usize,
}

impl<'a> Builder<'a> {
    pub fn new(probe: &'a Probe) -> Self {
        let mut p = Placement::default();
        p.probe = probe.name.to_string();
        Builder { p, probe, n_custom: 0, n_val: 0, enum_start: 0 }
    }
    fn value(&mut self, rng: &mut Rng) -> String {
        self.n_val += 1;
        // boundary values: zero is a meaningful setting for the numeric options
        if matches!(self.probe.ty, PType::Float | PType::Int) && rng.chance(1, 5) {
            return "0".to_string();
        }
        match self.probe.ty {
            // one string value in four contains a '=' (harmless everywhere, but a separator in
            // GIT_CONFIG_PARAMETERS entries)
            PType::Str => {
                let n = rng.below(90) + 10;
                if n % 4 == 0 {
                    format!("V{}x={}", self.n_val, n)
                } else {
                    format!("V{}x{}", self.n_val, n)
                }
            }
            PType::Float => format!("0.{}{}", self.n_val, rng.below(9) + 1),
            PType::Int => format!("{}{}", self.n_val, rng.below(9) + 1),
            PType::Bool => (if rng.chance(1, 2) { "true" } else { "false" }).to_string(),
            // successive sources get different words (from a random starting point)
            PType::Enum(words) => {
                if self.n_val == 1 {
                    self.enum_start = rng.below(words.len() as u64) as usize;
                }
                words[(self.enum_start + self.n_val - 1) % words.len()].to_string()
            }
        }
    }
    fn new_custom(&mut self) -> String {
        self.n_custom += 1;
        format!("f{}", (b'a' + (self.n_custom as u8 - 1)) as char)
    }
    fn builtin_for_probe(&self, rng: &mut Rng) -> Option<String> {
        if self.probe.builtin.is_empty() {
            None
        } else {
            Some(rng.pick(self.probe.builtin).0.to_string())
        }
    }
    /// some builtin feature (one that sets the probe if possible, else any harmless one)
    fn some_builtin(&self, rng: &mut Rng) -> String {
        match self.builtin_for_probe(rng) {
            Some(b) if rng.chance(3, 4) => b,
            _ => (*rng.pick(&["navigate", "line-numbers", "hyperlinks", "raw", "diff-highlight", "side-by-side"])).to_string(),
        }
    }
    fn list_mut(&mut self, which: &str) -> &mut Vec<String> {
        match which {
            "cli" => self.p.cli_features.get_or_insert_with(Vec::new),
            "env" => {
                if self.p.env_features.is_none() {
                    self.p.env_features = Some((false, Vec::new()));
                }
                &mut self.p.env_features.as_mut().unwrap().1
            }
            "plusenv" => {
                if self.p.env_features.is_none() {
                    self.p.env_features = Some((true, Vec::new()));
                }
                &mut self.p.env_features.as_mut().unwrap().1
            }
            "main" => self.p.main.features.get_or_insert_with(Vec::new),
            _ => self.p.envparam_features.get_or_insert_with(Vec::new),
        }
    }
    fn insert_in_list(&mut self, rng: &mut Rng, which: &str, name: String) {
        // env and plusenv are the same variable: keep whichever was chosen first
        let which = if (which == "env" || which == "plusenv") && self.p.env_features.is_some() {
            if self.p.env_features.as_ref().unwrap().0 {
                "plusenv"
            } else {
                "env"
            }
        } else {
            which
        };
        let l = self.list_mut(which);
        if l.contains(&name) {
            return;
        }
        let pos = rng.range(0, l.len());
        l.insert(pos, name);
    }
    pub fn add(&mut self, rng: &mut Rng, kind: &str) -> bool {
        match kind {
            "cli" => {
                if self.p.cli_value.is_some() {
                    return false;
                }
                let v = if self.probe.ty == PType::Bool { "true".to_string() } else { self.value(rng) };
                self.p.cli_value = Some(v);
            }
            "main" => {
                if self.p.main.value.is_some() {
                    return false;
                }
                let v = self.value(rng);
                self.p.main.value = Some(v);
            }
            "envparam" => {
                if self.p.envparam_value.is_some() {
                    return false;
                }
                let v = self.value(rng);
                self.p.envparam_value = Some(v);
            }
            "custom-cli-features" | "custom-env-features" | "custom-plusenv-features" | "custom-main-features" | "custom-envparam-features" => {
                let which = kind.trim_start_matches("custom-").trim_end_matches("-features").to_string();
                let name = self.new_custom();
                let v = self.value(rng);
                self.p.custom.insert(name.clone(), Section { value: Some(v), ..Default::default() });
                self.insert_in_list(rng, &which, name);
            }
            "custom-child" | "custom-grandchild" => {
                let which = (*rng.pick(&["cli", "env", "plusenv", "main"])).to_string();
                let parent = self.new_custom();
                let child = self.new_custom();
                let v = self.value(rng);
                let pv = if rng.chance(1, 4) { Some(self.value(rng)) } else { None };
                if kind == "custom-grandchild" {
                    let mid = self.new_custom();
                    self.p.custom.insert(parent.clone(), Section { value: pv, features: Some(vec![mid.clone()]), flags: vec![] });
                    self.p.custom.insert(mid, Section { value: None, features: Some(vec![child.clone()]), flags: vec![] });
                } else {
                    // the parent may list a second child without a value
                    let mut kids = vec![child.clone()];
                    if rng.chance(1, 3) {
                        let other = self.new_custom();
                        self.p.custom.insert(other.clone(), Section::default());
                        let pos = rng.range(0, 1);
                        kids.insert(pos, other);
                    }
                    self.p.custom.insert(parent.clone(), Section { value: pv, features: Some(kids), flags: vec![] });
                }
                self.p.custom.insert(child, Section { value: Some(v), ..Default::default() });
                self.insert_in_list(rng, &which, parent);
            }
            "builtin-cli-flag" => {
                let b = self.some_builtin(rng);
                if b == "color-only" || self.p.cli_flags.contains(&b) || self.p.cli_flags.len() >= 2 {
                    return false;
                }
                self.p.cli_flags.push(b);
            }
            "custom-cycle" | "custom-self-loop" => {
                // feature graphs with cycles: fa enables fb enables fa; fc enables itself
                let which = (*rng.pick(&["cli", "env", "plusenv", "main"])).to_string();
                let a = self.new_custom();
                let v = self.value(rng);
                if kind == "custom-self-loop" {
                    self.p.custom.insert(a.clone(), Section { value: Some(v), features: Some(vec![a.clone()]), flags: vec![] });
                } else {
                    let b = self.new_custom();
                    let av = if rng.chance(1, 3) { Some(self.value(rng)) } else { None };
                    self.p.custom.insert(a.clone(), Section { value: av, features: Some(vec![b.clone()]), flags: vec![] });
                    self.p.custom.insert(b, Section { value: Some(v), features: Some(vec![a.clone()]), flags: vec![] });
                }
                self.insert_in_list(rng, &which, a);
            }
            "builtin-envparam-flag" => {
                let b = self.some_builtin(rng);
                if self.p.main.flags.contains(&b) || self.p.envparam_flags.contains(&b) || self.p.main.flags.len() + self.p.envparam_flags.len() >= 2 {
                    return false;
                }
                self.p.envparam_flags.push(b);
            }
            "builtin-main-flag" => {
                let b = self.some_builtin(rng);
                if self.p.main.flags.contains(&b) || self.p.envparam_flags.contains(&b) || self.p.main.flags.len() + self.p.envparam_flags.len() >= 2 {
                    return false;
                }
                self.p.main.flags.push(b);
            }
            "builtin-in-cli-features" | "builtin-in-env-features" | "builtin-in-main-features" => {
                let which = kind.trim_start_matches("builtin-in-").trim_end_matches("-features").to_string();
                let which = if which == "env" && rng.chance(1, 2) { "plusenv".to_string() } else { which };
                let b = self.some_builtin(rng);
                self.insert_in_list(rng, &which, b);
            }
            "builtin-flag-in-custom" => {
                let which = (*rng.pick(&["cli", "env", "plusenv", "main"])).to_string();
                let parent = self.new_custom();
                let b = self.some_builtin(rng);
                self.p.custom.insert(parent.clone(), Section { value: None, features: None, flags: vec![b] });
                self.insert_in_list(rng, &which, parent);
            }
            "builtin-child-of-custom" => {
                let which = (*rng.pick(&["cli", "env", "plusenv", "main"])).to_string();
                let parent = self.new_custom();
                let b = self.some_builtin(rng);
                self.p.custom.insert(parent.clone(), Section { value: None, features: Some(vec![b]), flags: vec![] });
                self.insert_in_list(rng, &which, parent);
            }
            "custom-section-named-as-builtin" => {
                let b = match self.builtin_for_probe(rng) {
                    Some(b) => b,
                    None => return false,
                };
                if self.p.custom.contains_key(&b) {
                    return false;
                }
                let v = self.value(rng);
                self.p.custom.insert(b.clone(), Section { value: Some(v), ..Default::default() });
                // enable the builtin somewhere
                match rng.below(3) {
                    0 if b != "color-only" && !self.p.cli_flags.contains(&b) && self.p.cli_flags.len() < 2 => self.p.cli_flags.push(b),
                    1 if !self.p.main.flags.contains(&b) && !self.p.envparam_flags.contains(&b) && self.p.main.flags.len() + self.p.envparam_flags.len() < 2 => self.p.main.flags.push(b),
                    _ => {
                        let which = (*rng.pick(&["cli", "env", "main"])).to_string();
                        self.insert_in_list(rng, &which, b);
                    }
                }
            }
            "builtin-flag-in-grandchild" => {
                // list -> custom parent -> custom child -> builtin enabled by a flag in the child's section
                let which = (*rng.pick(&["cli", "env", "plusenv", "main"])).to_string();
                let parent = self.new_custom();
                let child = self.new_custom();
                let b = self.some_builtin(rng);
                let pv = if rng.chance(1, 3) { Some(self.value(rng)) } else { None };
                self.p.custom.insert(parent.clone(), Section { value: None, features: Some(vec![child.clone()]), flags: vec![] });
                self.p.custom.insert(child, Section { value: pv, features: None, flags: vec![b] });
                self.insert_in_list(rng, &which, parent);
            }
            "empty-cli-features" => {
                // `--features ''`: given, but names nothing (still replaces delta.features of the main section)
                if self.p.cli_features.is_some() {
                    return false;
                }
                self.p.cli_features = Some(vec![]);
            }
            "plus-only-env-features" => {
                // DELTA_FEATURES='+': "go back to just the features from git config"
                if self.p.env_features.is_some() {
                    return false;
                }
                self.p.env_features = Some((true, vec![]));
            }
            "builtin-named-section-with-child" => {
                // [delta "<builtin>"] is also a custom section: features it enables count, even when
                // the builtin itself was already enabled at higher priority by something else
                let b = (*rng.pick(&["line-numbers", "navigate", "raw", "hyperlinks", "diff-highlight"])).to_string();
                if self.p.custom.contains_key(&b) {
                    return false;
                }
                let child = self.new_custom();
                let v = self.value(rng);
                self.p.custom.insert(child.clone(), Section { value: Some(v), ..Default::default() });
                self.p.custom.insert(b.clone(), Section { value: None, features: Some(vec![child]), flags: vec![] });
                let which = (*rng.pick(&["cli", "env", "plusenv", "main"])).to_string();
                self.insert_in_list(rng, &which, b.clone());
                match rng.below(4) {
                    0 if b == "line-numbers" => {
                        // side-by-side enables line-numbers
                        let w2 = (*rng.pick(&["cli", "env", "plusenv", "main"])).to_string();
                        self.insert_in_list(rng, &w2, "side-by-side".to_string());
                    }
                    1 if !self.p.cli_flags.contains(&b) && self.p.cli_flags.len() < 2 => self.p.cli_flags.push(b),
                    2 if !self.p.main.flags.contains(&b) && !self.p.envparam_flags.contains(&b) && self.p.main.flags.len() + self.p.envparam_flags.len() < 2 => self.p.main.flags.push(b),
                    _ => {}
                }
            }
            "repeat-mention-same-list" | "repeat-mention-other-list" | "repeat-mention-as-child" => {
                // a feature that is already enabled somewhere is named a second time: the
                // documentation says the later (lower-priority) encounter is ignored
                let lists: Vec<(&str, Vec<String>)> = vec![
                    ("cli", self.p.cli_features.clone().unwrap_or_default()),
                    (if self.p.env_features.as_ref().map(|e| e.0).unwrap_or(false) { "plusenv" } else { "env" }, self.p.env_features.as_ref().map(|e| e.1.clone()).unwrap_or_default()),
                    ("main", self.p.main.features.clone().unwrap_or_default()),
                    ("envparam", self.p.envparam_features.clone().unwrap_or_default()),
                ];
                let nonempty: Vec<&(&str, Vec<String>)> = lists.iter().filter(|(_, l)| !l.is_empty()).collect();
                if nonempty.is_empty() {
                    return false;
                }
                let (which, l) = (*rng.pick(&nonempty)).clone();
                let name = rng.pick(&l).clone();
                match kind {
                    "repeat-mention-same-list" => {
                        // make sure something else sits in between: add one more valued feature first
                        let other = self.new_custom();
                        let v = self.value(rng);
                        self.p.custom.insert(other.clone(), Section { value: Some(v), ..Default::default() });
                        let lm = self.list_mut(which);
                        let pos = lm.iter().position(|x| *x == name).unwrap_or(0);
                        // other right after the first mention, the repeat at either end
                        lm.insert(pos + 1, other);
                        if rng.chance(1, 2) {
                            lm.push(name);
                        } else {
                            lm.insert(0, name);
                        }
                    }
                    "repeat-mention-other-list" => {
                        let other_list = (*rng.pick(&["cli", "env", "plusenv", "main"])).to_string();
                        let other = self.new_custom();
                        let v = self.value(rng);
                        self.p.custom.insert(other.clone(), Section { value: Some(v), ..Default::default() });
                        // force insertion even though the name exists elsewhere
                        let ol = if (other_list == "env" || other_list == "plusenv") && self.p.env_features.is_some() { if self.p.env_features.as_ref().unwrap().0 { "plusenv".to_string() } else { "env".to_string() } } else { other_list };
                        let lm = self.list_mut(&ol);
                        let pos = rng.range(0, lm.len());
                        lm.insert(pos, other);
                        let pos = rng.range(0, lm.len());
                        lm.insert(pos, name);
                    }
                    _ => {
                        let parent = self.new_custom();
                        let other = self.new_custom();
                        let v = self.value(rng);
                        self.p.custom.insert(other.clone(), Section { value: Some(v), ..Default::default() });
                        let mut kids = vec![name];
                        if rng.chance(1, 2) {
                            kids.insert(rng.range(0, 1), other.clone());
                        }
                        self.p.custom.insert(parent.clone(), Section { value: None, features: Some(kids), flags: vec![] });
                        let lm = self.list_mut(which);
                        let pos = rng.range(0, lm.len());
                        lm.insert(pos, parent);
                        if !lm.contains(&other) && rng.chance(1, 2) {
                            let pos = rng.range(0, lm.len());
                            lm.insert(pos, other);
                        }
                    }
                }
            }
            _ => return false,
        }
        self.p.sources.push(kind.to_string());
        if reads_git_colors(self.probe.name) && self.p.sources.len() == 1 {
            self.p.git_colors = rng.chance(1, 2);
        }
        if self.p.sources.len() == 1 {
            let vs = extra_cli_variants(self.probe.name);
            if vs.len() > 1 {
                self.p.extra_cli = rng.pick(&vs).clone();
            }
        }
        true
    }
}

/// The model cannot express these; never generate them.
pub fn sane(p: &Placement) -> bool {
    // `--color-only` on the command line removes side-by-side from the builtin features
    if p.cli_flags.iter().any(|b| b == "color-only") {
        return false;
    }
    true
}

pub fn gen_placement(seed: u64, idx: usize) -> Placement {
    let mut rng = Rng::new(mix(seed, &[tag("C13"), tag("placement"), idx as u64]));
    let probe = &PROBES[idx % PROBES.len()];
    loop {
        let mut b = Builder::new(probe);
        let n = match rng.below(10) {
            0 => 1,
            1..=4 => 2,
            5..=7 => 3,
            8 => 4,
            _ => 5,
        };
        let mut tries = 0;
        let mut placed = 0;
        while placed < n && tries < 30 {
            tries += 1;
            let k = *rng.pick(SOURCE_KINDS);
            if b.add(&mut rng, k) {
                placed += 1;
            }
        }
        b.p.no_gitconfig = rng.chance(1, 12);
        b.p.via_config_flag = rng.chance(1, 4);
        b.p.sloppy_ws = rng.chance(1, 5);
        if sane(&b.p) {
            return b.p;
        }
    }
}

/// Systematic core: every single source kind and every unordered pair of kinds, for every probe.
pub fn lattice(seed: u64, both_orders: bool) -> Vec<Placement> {
    let mut out = Vec::new();
    let mut n = 0u64;
    for probe in PROBES {
        for (i, a) in SOURCE_KINDS.iter().enumerate() {
            for bk in SOURCE_KINDS[i..].iter() {
                for rep in 0..2u64 {
                    // one construction order per (pair, probe), alternating; both orders in the thorough tier
                    if !both_orders && rep != (n / 2 + probe.name.len() as u64) % 2 {
                        n += 1;
                        continue;
                    }
                    n += 1;
                    let mut rng = Rng::new(mix(seed, &[tag("C13"), tag("lattice"), n]));
                    let mut b = Builder::new(probe);
                    // order of construction must not matter; alternate it
                    let (first, second) = if rep == 0 { (a, bk) } else { (bk, a) };
                    let ok1 = b.add(&mut rng, first);
                    let ok2 = if first == second && rep == 1 { false } else { b.add(&mut rng, second) };
                    if !(ok1 || ok2) {
                        continue;
                    }
                    if rep == 1 && first == second {
                        continue;
                    }
                    if sane(&b.p) {
                        out.push(b.p);
                    }
                }
            }
        }
        // the kinds that change how the feature lists combine (`--features ''`, DELTA_FEATURES='+',
        // a '+' list), two at a time, against every other kind
        for (m1, m2) in [("empty-cli-features", "plus-only-env-features"), ("empty-cli-features", "custom-plusenv-features"), ("plus-only-env-features", "custom-cli-features")] {
            for a in SOURCE_KINDS {
                if *a == m1 || *a == m2 {
                    continue;
                }
                n += 1;
                let mut rng = Rng::new(mix(seed, &[tag("C13"), tag("modifiers"), n]));
                let mut b = Builder::new(probe);
                let order: [&str; 3] = if n % 2 == 0 { [a, m1, m2] } else { [m1, a, m2] };
                let mut ok = 0;
                for k in order {
                    if b.add(&mut rng, k) {
                        ok += 1;
                    }
                }
                if ok >= 2 && sane(&b.p) {
                    out.push(b.p);
                }
            }
        }
        // --no-gitconfig against every single gitconfig source kind
        for a in SOURCE_KINDS {
            n += 1;
            let mut rng = Rng::new(mix(seed, &[tag("C13"), tag("nogc"), n]));
            let mut b = Builder::new(probe);
            if b.add(&mut rng, a) {
                b.p.no_gitconfig = true;
                b.p.via_config_flag = rng.chance(1, 2);
                if sane(&b.p) {
                    out.push(b.p);
                }
            }
        }
    }
    out
}

