//! Violations, replay files, known findings.

use serde::{Deserialize, Serialize};
use serde_json::Value;
use std::path::PathBuf;

#[derive(Clone, Debug, Serialize, Deserialize)]
pub struct Violation {
    /// oracle id, e.g. "X5-quiet-quit"
    pub oracle: String,
    /// stable signature used to match known findings (no run-specific numbers)
    pub signature: String,
    pub message: String,
}

impl Violation {
    pub fn new(oracle: &str, signature: &str, message: String) -> Violation {
        Violation { oracle: oracle.into(), signature: signature.into(), message }
    }
}

pub fn verif_root() -> String {
    std::env::var("VERIF_ROOT").unwrap_or_else(|_| "/verif".into())
}

pub fn replay_dir() -> PathBuf {
    let p = PathBuf::from(std::env::var("VERIF_REPLAY_DIR").unwrap_or_else(|_| format!("{}/replays", verif_root())));
    let _ = std::fs::create_dir_all(&p);
    p
}

pub fn write_replay(property: &str, name: &str, body: &Value) -> PathBuf {
    let path = replay_dir().join(format!("{}-{}.json", property, name));
    let _ = std::fs::write(&path, serde_json::to_string_pretty(body).unwrap() + "\n");
    path
}

#[derive(Clone, Debug, Default, Deserialize)]
pub struct KnownFindings {
    #[serde(default)]
    pub findings: Vec<Finding>,
    #[serde(default)]
    pub fixed: Vec<Value>,
}

#[derive(Clone, Debug, Deserialize)]
pub struct Finding {
    pub property: String,
    pub signature: String,
    pub what: String,
}

pub fn load_known() -> KnownFindings {
    let p = format!("{}/known_findings.json", verif_root());
    match std::fs::read_to_string(&p) {
        Ok(s) => serde_json::from_str(&s).unwrap_or_default(),
        Err(_) => KnownFindings::default(),
    }
}

impl KnownFindings {
    pub fn matches(&self, property: &str, v: &Violation) -> Option<&Finding> {
        self.findings.iter().find(|f| f.property == property && f.signature == v.signature)
    }
}
