//! Seeded workload generator: git / `diff -u` output with per-line ground truth.
//!
//! Every hunk body line carries a unique token `T000123` so that an oracle can
//! tell, from the escape-stripped output alone, whether that line has been
//! rendered yet.  Line kinds come from the generator, never from re-parsing.

use crate::rng::Rng;
use serde::{Deserialize, Serialize};

#[derive(Clone, Copy, Debug, PartialEq, Eq, Serialize, Deserialize)]
pub enum LineKind {
    /// commit metadata, diff header lines, anything outside hunks
    Meta,
    HunkHeader,
    Context,
    Minus,
    Plus,
    /// `\ No newline at end of file`
    NoNewline,
}

#[derive(Clone, Debug, Serialize, Deserialize)]
pub struct GLine {
    pub text: String,
    pub kind: LineKind,
    pub token: Option<String>,
    pub section: usize,
    pub hunk: usize,
}

#[derive(Clone, Copy, Debug, PartialEq, Eq, Serialize, Deserialize)]
pub enum SectionKind {
    Modified,
    ModifiedEndsChanged,
    Added,
    Deleted,
    RenamedPure,
    RenamedChanged,
    Copied,
    ModeOnly,
    ModeAndChange,
    Binary,
    SubmoduleShort,
    EmptyNew,
    /// merge commit: `diff --cc path` with two-column hunks
    CombinedModified,
    /// merge commit: `diff --cc path`, binary
    CombinedBinary,
    /// binary file renamed and changed: two-name diff line, no ---/+++ lines
    RenamedBinary,
    /// `git diff --no-index A B` on binary files: two-name diff line followed only by index + Binary
    TwoNameBinary,
    /// `diff.submodule = log`: "Submodule path 123..456:" followed by commit summary lines
    SubmoduleLog,
    /// `git diff --no-index one/x two/x` where only the mode differs: two-name diff line, old/new mode
    TwoNameModeOnly,
    /// a modified file whose last line is a hunk header with nothing after it (truncated input,
    /// `git diff | head`): only the concatenation check uses it
    ModifiedEndsWithHunkHeader,
    /// `git diff` during a merge: combined diff whose hunk holds a conflict region
    /// (<<<<<<< / optional ||||||| / ======= / >>>>>>>); only the concatenation check uses it
    CombinedConflict,
    /// the same, but the section ends inside the conflict region (no closing marker)
    CombinedConflictOpen,
}

pub const ALL_SECTION_KINDS: &[SectionKind] = &[
    SectionKind::Modified,
    SectionKind::ModifiedEndsChanged,
    SectionKind::Added,
    SectionKind::Deleted,
    SectionKind::RenamedPure,
    SectionKind::RenamedChanged,
    SectionKind::Copied,
    SectionKind::ModeOnly,
    SectionKind::ModeAndChange,
    SectionKind::Binary,
    SectionKind::SubmoduleShort,
    SectionKind::EmptyNew,
    SectionKind::CombinedModified,
    SectionKind::CombinedBinary,
    SectionKind::RenamedBinary,
    SectionKind::TwoNameBinary,
    SectionKind::SubmoduleLog,
];

/// The kinds above plus those that only the concatenation check (C10) uses: delta holds a whole
/// conflict region back by design, which the streaming bound (C11) does not cover.
pub const ALL_SECTION_KINDS_C10: &[SectionKind] = &[
    SectionKind::Modified,
    SectionKind::ModifiedEndsChanged,
    SectionKind::Added,
    SectionKind::Deleted,
    SectionKind::RenamedPure,
    SectionKind::RenamedChanged,
    SectionKind::Copied,
    SectionKind::ModeOnly,
    SectionKind::ModeAndChange,
    SectionKind::Binary,
    SectionKind::SubmoduleShort,
    SectionKind::EmptyNew,
    SectionKind::CombinedModified,
    SectionKind::CombinedBinary,
    SectionKind::RenamedBinary,
    SectionKind::TwoNameBinary,
    SectionKind::SubmoduleLog,
    SectionKind::CombinedConflict,
    SectionKind::ModifiedEndsWithHunkHeader,
    SectionKind::TwoNameModeOnly,
    // CombinedConflictOpen (a section that ends inside a conflict region) is not in the list: it is
    // not a complete file diff, and what delta should do with the lines it has buffered when the
    // next section begins is not something the property decides
];

#[derive(Clone, Copy, Debug, PartialEq, Eq, Serialize, Deserialize)]
pub enum Flavor {
    Git,
    GitCombined,
    DiffU,
}

#[derive(Clone, Debug, Serialize, Deserialize)]
pub struct GenParams {
    pub flavor: Flavor,
    pub sections: Vec<SectionKind>,
    pub max_hunks: usize,
    /// run lengths are drawn around this (the configured line-buffer-size)
    pub pivot: usize,
    pub max_run: usize,
    pub with_commit_preamble: bool,
    pub multibyte: bool,
    pub no_newline_marker: bool,
    /// when true the minus/plus lines of a run share most words, so that
    /// within-line edit inference has something to do
    pub similar_pairs: bool,
    /// `hg diff --git`, or patches whose `index` lines were stripped
    #[serde(default)]
    pub no_index_lines: bool,
    /// `git diff --no-prefix`: no a/ b/ in front of the paths
    #[serde(default)]
    pub no_prefix: bool,
    /// hunks start at line numbers of 5-7 digits (0 = sometimes, 1 = always, 2 = never)
    #[serde(default)]
    pub line_number_class: u8,
    /// percentage of body lines long enough to wrap over several rows in side-by-side mode
    #[serde(default = "default_long_pct")]
    pub long_line_pct: u8,
    /// how git writes the paths: 0 = as they are (`core.quotePath=false`), 1 = git's default: a path
    /// with bytes above 0x7f, a quote or a backslash is written "a/na\303\257ve" with octal escapes,
    /// a path with a blank gets a TAB after it in the ---/+++ lines; 2.. = `diff.mnemonicPrefix`
    /// (i/ w/, c/ w/, c/ i/, o/ w/ instead of a/ b/)
    #[serde(default)]
    pub path_style: u8,
}

fn default_long_pct() -> u8 {
    8
}

pub struct Gen<'a> {
    pub rng: &'a mut Rng,
    next_token: usize,
    pub lines: Vec<GLine>,
    pub special_names: bool,
    pub long_line_pct: u8,
    /// when set, every section is about this path (as in `git log -p -- path`, or the same file
    /// changed in consecutive commits)
    pub forced_name: Option<String>,
    /// every path handed out by `fname` for the section being generated
    names_used: Vec<String>,
    /// percentage of paths that need careful parsing (blanks, non-ASCII, quotes, directories named
    /// like git's one-letter prefixes); 10 unless the section is about the way paths are written
    special_pct: u8,
}

const EXTS: &[&str] = &["rs", "py", "txt", "c", "js", "md", "toml", "sh", ""];
const WORDS: &[&str] = &[
    "alpha", "beta", "gamma", "delta", "let", "fn", "return", "if", "else", "x", "y", "foo(bar)", "42", "\"str\"", "// note", "=", "+=",
    "self.len()", "Vec::new()", "None", "true", "&mut", "[0]", "{", "}", ";",
    // openers of multi-line constructs (comments, strings): the highlighter's parse state spans lines
    "/*", "*/", "\"\"\"", "<!--", "r#\"",
];
const MB_WORDS: &[&str] = &["héllo", "naïve", "日本", "语言", "λ", "→", "ß", "Ω"];

impl<'a> Gen<'a> {
    pub fn new(rng: &'a mut Rng) -> Self {
        Gen { rng, next_token: 0, lines: Vec::new(), special_names: true, long_line_pct: 8, forced_name: None, names_used: Vec::new(), special_pct: 10 }
    }

    fn token(&mut self) -> String {
        let t = format!("T{:06}", self.next_token);
        self.next_token += 1;
        t
    }

    fn push(&mut self, text: String, kind: LineKind, token: Option<String>, section: usize, hunk: usize) {
        self.lines.push(GLine { text, kind, token, section, hunk });
    }

    fn words(&mut self, multibyte: bool, maxw: usize) -> String {
        let n = if maxw > 3 { self.rng.range(maxw / 2, maxw) } else { self.rng.range(0, maxw) };
        let mut v = Vec::new();
        for _ in 0..n {
            if multibyte && self.rng.chance(1, 4) {
                v.push(*self.rng.pick(MB_WORDS));
            } else {
                v.push(*self.rng.pick(WORDS));
            }
        }
        v.join(" ")
    }

    fn body_text(&mut self, tok: &str, multibyte: bool, base: Option<&str>) -> String {
        // keep it short: tokens must never be split by wrapping (<= ~34 columns)
        match base {
            Some(b) => {
                // similar to `b`: same words, one changed
                let mut ws: Vec<String> = b.split(' ').map(|s| s.to_string()).collect();
                if !ws.is_empty() {
                    let i = self.rng.range(0, ws.len() - 1);
                    ws[i] = self.rng.pick(WORDS).to_string();
                }
                format!("{} {}", tok, ws.join(" ")).trim_end().to_string()
            }
            None => {
                // one line in twelve is long enough to wrap over several rows in side-by-side mode
                // (the token stays at the start, i.e. in the first row)
                let maxw = if self.rng.chance(self.long_line_pct as u64, 100) { self.rng.range(12, 45) } else { 3 };
                let w = self.words(multibyte, maxw);
                let indent = *self.rng.pick(&["", "", "  ", "    "]);
                format!("{}{} {}", indent, tok, w).trim_end().to_string()
            }
        }
    }

    fn fname(&mut self, section: usize) -> String {
        let n = self.fname_inner(section);
        self.names_used.push(n.clone());
        n
    }

    fn fname_inner(&mut self, section: usize) -> String {
        if section < 1000 {
            if let Some(n) = &self.forced_name {
                return n.clone();
            }
        }
        let dir = if self.special_pct > 10 { *self.rng.pick(&["", "src/", "a/b/", "lib/x/", "a/", "b/", "c/", "i/", "w/", "o/", "c/w/"]) } else { *self.rng.pick(&["", "src/", "a/b/", "lib/x/"]) };
        let special = if self.special_pct > 10 { self.rng.chance(self.special_pct as u64, 100) } else { self.special_names && self.rng.chance(1, 10) };
        if special {
            // names that need careful parsing of the header lines
            let n = *self.rng.pick(&["my file.txt", "dir with space/x y.rs", "naïve/файл.py", "a/b", "b/a.rs", "x -> y.txt", "weird\"quote.c"]);
            return format!("{}{}", dir, n);
        }
        if self.special_names && self.rng.chance(1, 3) {
            // names whose language is chosen by the whole file name, next to plain names with the same extension
            let n = *self.rng.pick(&["CMakeLists.txt", "notes.txt", "requirements.txt", "Cargo.lock", "yarn.lock", "Makefile", "Dockerfile", "nginx.conf", "app.conf", "todo.txt", "Gemfile", "Rakefile", ".bashrc", "build.gradle", "package.json"]);
            return format!("{}{}", dir, n);
        }
        let ext = *self.rng.pick(EXTS);
        let stem = format!("f{}_{}", section, self.rng.below(1000));
        if ext.is_empty() {
            format!("{}{}", dir, stem)
        } else {
            format!("{}{}.{}", dir, stem, ext)
        }
    }

    fn hex(&mut self, n: usize) -> String {
        let mut s = String::new();
        for _ in 0..n {
            s.push(std::char::from_digit(self.rng.below(16) as u32, 16).unwrap());
        }
        s
    }

    fn run_len(&mut self, p: &GenParams) -> usize {
        // around the pivot: shorter, equal, +1, +2, much longer
        let piv = p.pivot;
        let c = self.rng.below(8);
        let l = match c {
            0 => 1,
            1 => piv.saturating_sub(1).max(1),
            2 => piv.max(1),
            3 => piv + 1,
            4 => piv + 2,
            5 => piv + 3,
            6 => self.rng.range(1, 4),
            _ => self.rng.range(piv + 2, piv + 2 + p.max_run),
        };
        l.min(p.max_run.max(piv + 4))
    }

    /// Hunk body for a modified file.  `ends_changed`: the last line is a +/- line.
    fn hunk_body(&mut self, p: &GenParams, section: usize, hunk: usize, prefix_len: usize, only: Option<LineKind>, ends_changed: bool) -> (usize, usize) {
        let mut old = 0;
        let mut new = 0;
        let pfx = |k: LineKind, rng: &mut Rng| -> String {
            if prefix_len == 1 {
                match k {
                    LineKind::Minus => "-".into(),
                    LineKind::Plus => "+".into(),
                    _ => " ".into(),
                }
            } else {
                match k {
                    LineKind::Minus => (*rng.pick(&["- ", " -", "--"])).to_string(),
                    LineKind::Plus => (*rng.pick(&["+ ", " +", "++"])).to_string(),
                    _ => "  ".into(),
                }
            }
        };
        if let Some(k) = only {
            let n = self.run_len(p) + self.rng.range(0, 3);
            for _ in 0..n {
                let t = self.token();
                let text = self.body_text(&t, p.multibyte, None);
                let px = pfx(k, self.rng);
                self.push(format!("{}{}", px, text), k, Some(t), section, hunk);
                if k == LineKind::Minus {
                    old += 1
                } else {
                    new += 1
                }
            }
            return (old, new);
        }
        let groups = self.rng.range(1, 3);
        for g in 0..groups {
            // leading context
            let nctx = if g == 0 { self.rng.range(0, 3) } else { self.rng.range(1, 3) };
            for _ in 0..nctx {
                let px = pfx(LineKind::Context, self.rng);
                if self.rng.chance(1, 7) {
                    // an empty unchanged line (no token); one time in three without even the prefix,
                    // as `diff --suppress-blank-empty`, editors and mail programs leave it
                    let px = if self.rng.chance(1, 3) { String::new() } else { px };
                    self.push(px, LineKind::Context, None, section, hunk);
                    old += 1;
                    new += 1;
                    continue;
                }
                let t = self.token();
                let text = self.body_text(&t, p.multibyte, None);
                self.push(format!("{}{}", px, text), LineKind::Context, Some(t), section, hunk);
                old += 1;
                new += 1;
            }
            // a changed run: minus*, plus*  (possibly only one side)
            let shape = self.rng.below(4);
            let nm = if shape == 1 { 0 } else { self.run_len(p) };
            let np = if shape == 2 { 0 } else { self.run_len(p) };
            let mut minus_texts = Vec::new();
            for _ in 0..nm {
                let t = self.token();
                let text = self.body_text(&t, p.multibyte, None);
                minus_texts.push(text.splitn(2, ' ').nth(1).unwrap_or("").to_string());
                let px = pfx(LineKind::Minus, self.rng);
                self.push(format!("{}{}", px, text), LineKind::Minus, Some(t), section, hunk);
                old += 1;
            }
            for i in 0..np {
                let t = self.token();
                let base = if p.similar_pairs && i < minus_texts.len() { Some(minus_texts[i].clone()) } else { None };
                let text = self.body_text(&t, p.multibyte, base.as_deref());
                let px = pfx(LineKind::Plus, self.rng);
                self.push(format!("{}{}", px, text), LineKind::Plus, Some(t), section, hunk);
                new += 1;
            }
            if p.no_newline_marker && prefix_len == 1 && g == groups - 1 && self.rng.chance(1, 6) && (nm > 0 || np > 0) {
                self.push("\\ No newline at end of file".into(), LineKind::NoNewline, None, section, hunk);
            }
        }
        if !ends_changed {
            let nctx = self.rng.range(1, 3);
            for _ in 0..nctx {
                let t = self.token();
                let text = self.body_text(&t, p.multibyte, None);
                let px = pfx(LineKind::Context, self.rng);
                self.push(format!("{}{}", px, text), LineKind::Context, Some(t), section, hunk);
                old += 1;
                new += 1;
            }
            // neither version of the file ends in a newline and the hunk reaches the end of the file:
            // the marker follows an unchanged line (decided by the token count, without a draw, so
            // that the other cases stay what they were)
            if p.no_newline_marker && prefix_len == 1 && self.next_token % 5 == 0 {
                self.push("\\ No newline at end of file".into(), LineKind::NoNewline, None, section, hunk);
            }
        }
        (old, new)
    }

    fn hunks(&mut self, p: &GenParams, section: usize, prefix_len: usize, only: Option<LineKind>, ends_changed: bool) {
        let nh = if only.is_some() { 1 } else { self.rng.range(1, p.max_hunks.max(1)) };
        // mostly near the top of the file; sometimes far down (line numbers of 5, 6 or 7 digits
        // widen the line-number columns)
        let roll = match p.line_number_class {
            1 => self.rng.below(2),
            2 => 5,
            _ => self.rng.below(6),
        };
        let mut old_start = match roll {
            0 => self.rng.range(9_990, 12_000),
            1 => self.rng.range(99_000, 1_200_000),
            _ => self.rng.range(1, 30),
        };
        let mut new_start = old_start + self.rng.range(0, 3);
        for h in 0..nh {
            // header is pushed first with placeholder counts, fixed up after the body
            let idx = self.lines.len();
            self.push(String::new(), LineKind::HunkHeader, None, section, h);
            let last = h == nh - 1;
            let ec = if last { ends_changed } else { self.rng.chance(1, 3) };
            let (o, n) = self.hunk_body(p, section, h, prefix_len, only, ec);
            // half of the hunk headers carry a code fragment with a token of their own: once a line
            // of the hunk has been delivered the header must be out (unless the style hides it)
            let header_token = if self.rng.chance(1, 2) { Some(self.token()) } else { None };
            let frag = match &header_token {
                Some(t) => format!(" fn {}()", t),
                None => String::new(),
            };
            let hdr = match only {
                Some(LineKind::Plus) => format!("@@ -0,0 +1,{} @@", n),
                Some(LineKind::Minus) => format!("@@ -1,{} +0,0 @@", o),
                _ => {
                    if prefix_len == 1 {
                        format!("@@ -{},{} +{},{} @@{}", old_start, o, new_start, n, frag)
                    } else {
                        format!("@@@ -{},{} -{},{} +{},{} @@@{}", old_start, o, old_start, o, new_start, n, frag)
                    }
                }
            };
            self.lines[idx].text = hdr;
            if only.is_none() {
                self.lines[idx].token = header_token;
            }
            old_start += o + self.rng.range(5, 40);
            new_start += n + self.rng.range(5, 40);
        }
    }

    pub fn section(&mut self, p: &GenParams, kind: SectionKind, section: usize) {
        self.long_line_pct = p.long_line_pct;
        let start = self.lines.len();
        self.names_used.clear();
        self.special_pct = if p.path_style != 0 { 50 } else { 10 };
        self.section_inner(p, kind, section);
        if p.path_style != 0 && !p.no_prefix && p.flavor != Flavor::DiffU {
            let names = std::mem::take(&mut self.names_used);
            for l in self.lines[start..].iter_mut() {
                if l.kind == LineKind::Meta {
                    l.text = restyle_paths(&l.text, &names, p.path_style);
                }
            }
        }
        if p.no_index_lines {
            let tail: Vec<GLine> = self.lines.split_off(start);
            self.lines.extend(tail.into_iter().filter(|l| !(l.kind == LineKind::Meta && l.text.starts_with("index "))));
        }
        if p.no_prefix && p.flavor == Flavor::Git {
            for l in self.lines[start..].iter_mut() {
                if l.kind != LineKind::Meta {
                    continue;
                }
                if let Some(rest) = l.text.strip_prefix("diff --git a/") {
                    if let Some(i) = rest.find(" b/") {
                        l.text = format!("diff --git {} {}", &rest[..i], &rest[i + 3..]);
                    }
                } else if let Some(rest) = l.text.strip_prefix("--- a/") {
                    l.text = format!("--- {}", rest);
                } else if let Some(rest) = l.text.strip_prefix("+++ b/") {
                    l.text = format!("+++ {}", rest);
                } else if l.text.starts_with("Binary files a/") {
                    l.text = l.text.replace("Binary files a/", "Binary files ").replace(" and b/", " and ");
                }
            }
        }
    }

    fn section_inner(&mut self, p: &GenParams, kind: SectionKind, section: usize) {
        use SectionKind::*;
        let a = self.fname(section);
        let b = match kind {
            RenamedPure | RenamedChanged | Copied => self.fname(section + 1000),
            _ => a.clone(),
        };
        let (h1, h2) = (self.hex(7), self.hex(7));
        let meta = |g: &mut Gen, s: String| g.push(s, LineKind::Meta, None, section, 0);
        match p.flavor {
            Flavor::DiffU => {
                // plain `diff -u` / `diff -ru`: only modified-like sections exist
                // the command line is there for `diff -ru dir1 dir2`; files compared one by one and
                // concatenated (patch files, other version control systems) come without it
                if self.rng.chance(1, 2) {
                    meta(self, format!("diff -u {} {}", format!("old/{}", a), format!("new/{}", a)));
                }
                meta(self, format!("--- old/{}\t2024-01-01 10:00:00.000000000 +0000", a));
                meta(self, format!("+++ new/{}\t2024-01-02 10:00:00.000000000 +0000", a));
                self.hunks(p, section, 1, None, matches!(kind, ModifiedEndsChanged));
                return;
            }
            Flavor::GitCombined => {
                meta(self, format!("diff --cc {}", a));
                let h3 = self.hex(7);
                meta(self, format!("index {},{}..{}", h1, h3, h2));
                meta(self, format!("--- a/{}", a));
                meta(self, format!("+++ b/{}", a));
                self.hunks(p, section, 2, None, matches!(kind, ModifiedEndsChanged));
                return;
            }
            Flavor::Git => {}
        }
        match kind {
            CombinedModified => {
                meta(self, format!("diff --cc {}", a));
                let h3 = self.hex(7);
                meta(self, format!("index {},{}..{}", h1, h3, h2));
                meta(self, format!("--- a/{}", a));
                meta(self, format!("+++ b/{}", a));
                let ec = self.rng.chance(1, 2);
                self.hunks(p, section, 2, None, ec);
                return;
            }
            TwoNameModeOnly => {
                meta(self, format!("diff --git a/one/{} b/two/{}", a, a));
                meta(self, "old mode 100644".into());
                meta(self, "new mode 100755".into());
                return;
            }
            CombinedConflict | CombinedConflictOpen => {
                meta(self, format!("diff --cc {}", a));
                let h3 = self.hex(7);
                meta(self, format!("index {},{}..0000000", h1, h3));
                meta(self, format!("--- a/{}", a));
                meta(self, format!("+++ b/{}", a));
                let start = self.rng.range(1, 400);
                let fnname = self.token();
                self.push(format!("@@@ -{},7 -{},7 +{},15 @@@ fn {}()", start, start, start, fnname), LineKind::HunkHeader, None, section, 1);
                let diff3 = self.rng.chance(1, 2);
                let mut body = |g: &mut Gen, pfx: &str, n: usize, kind: LineKind| {
                    for _ in 0..n {
                        let t = g.token();
                        let text = g.body_text(&t, p.multibyte, None);
                        g.push(format!("{}{}", pfx, text), kind, Some(t), section, 1);
                    }
                };
                let n0 = self.rng.range(0, 2);
                body(self, "  ", n0, LineKind::Context);
                self.push("++<<<<<<< HEAD".into(), LineKind::Plus, None, section, 1);
                let n1 = self.rng.range(0, 3);
                body(self, " +", n1, LineKind::Plus);
                if diff3 {
                    self.push(format!("++||||||| {}", h2), LineKind::Plus, None, section, 1);
                    let n2 = self.rng.range(0, 2);
                    body(self, "++", n2, LineKind::Plus);
                }
                self.push("++=======".into(), LineKind::Plus, None, section, 1);
                let n3 = self.rng.range(0, 3);
                body(self, "+ ", n3, LineKind::Plus);
                if kind == CombinedConflict {
                    self.push("++>>>>>>> topic".into(), LineKind::Plus, None, section, 1);
                    let n4 = self.rng.range(0, 2);
                    body(self, "  ", n4, LineKind::Context);
                }
                return;
            }
            CombinedBinary => {
                meta(self, format!("diff --cc {}", a));
                let h3 = self.hex(7);
                meta(self, format!("index {},{}..{}", h1, h3, h2));
                meta(self, "Binary files differ".into());
                return;
            }
            SubmoduleLog => {
                let (c1, c2) = (self.hex(7), self.hex(7));
                meta(self, format!("Submodule {} {}..{}:", a, c1, c2));
                meta(self, "  > add the new thing".into());
                meta(self, "  > fix the old thing".into());
                if self.rng.chance(1, 2) {
                    meta(self, "  < dropped experiment".into());
                }
                return;
            }
            TwoNameBinary => {
                let b2 = self.fname(section + 1000);
                meta(self, format!("diff --git a/{} b/{}", a, b2));
                meta(self, format!("index {}..{} 100644", h1, h2));
                meta(self, format!("Binary files a/{} and b/{} differ", a, b2));
                return;
            }
            RenamedBinary => {
                let b2 = self.fname(section + 1000);
                meta(self, format!("diff --git a/{} b/{}", a, b2));
                meta(self, "similarity index 91%".into());
                meta(self, format!("rename from {}", a));
                meta(self, format!("rename to {}", b2));
                meta(self, format!("index {}..{} 100644", h1, h2));
                meta(self, format!("Binary files a/{} and b/{} differ", a, b2));
                return;
            }
            _ => {}
        }
        meta(self, format!("diff --git a/{} b/{}", a, b));
        match kind {
            Modified | ModifiedEndsChanged | ModifiedEndsWithHunkHeader => {
                meta(self, format!("index {}..{} 100644", h1, h2));
                meta(self, format!("--- a/{}", a));
                meta(self, format!("+++ b/{}", b));
                self.hunks(p, section, 1, None, kind == ModifiedEndsChanged);
                if kind == ModifiedEndsWithHunkHeader {
                    let t = self.token();
                    self.push(format!("@@ -90210,3 +90214,4 @@ fn {}()", t), LineKind::HunkHeader, None, section, 99);
                }
            }
            Added => {
                meta(self, "new file mode 100644".into());
                meta(self, format!("index 0000000..{}", h2));
                meta(self, "--- /dev/null".into());
                meta(self, format!("+++ b/{}", b));
                self.hunks(p, section, 1, Some(LineKind::Plus), true);
            }
            Deleted => {
                meta(self, "deleted file mode 100644".into());
                meta(self, format!("index {}..0000000", h1));
                meta(self, format!("--- a/{}", a));
                meta(self, "+++ /dev/null".into());
                self.hunks(p, section, 1, Some(LineKind::Minus), true);
            }
            RenamedPure => {
                meta(self, "similarity index 100%".into());
                meta(self, format!("rename from {}", a));
                meta(self, format!("rename to {}", b));
            }
            RenamedChanged => {
                meta(self, "similarity index 87%".into());
                meta(self, format!("rename from {}", a));
                meta(self, format!("rename to {}", b));
                meta(self, format!("index {}..{} 100644", h1, h2));
                meta(self, format!("--- a/{}", a));
                meta(self, format!("+++ b/{}", b));
                let ec = self.rng.chance(1, 2);
                self.hunks(p, section, 1, None, ec);
            }
            Copied => {
                meta(self, "similarity index 100%".into());
                meta(self, format!("copy from {}", a));
                meta(self, format!("copy to {}", b));
            }
            ModeOnly => {
                meta(self, "old mode 100644".into());
                meta(self, "new mode 100755".into());
            }
            ModeAndChange => {
                meta(self, "old mode 100644".into());
                meta(self, "new mode 100755".into());
                meta(self, format!("index {}..{}", h1, h2));
                meta(self, format!("--- a/{}", a));
                meta(self, format!("+++ b/{}", b));
                let ec = self.rng.chance(1, 2);
                self.hunks(p, section, 1, None, ec);
            }
            Binary => {
                meta(self, format!("index {}..{} 100644", h1, h2));
                meta(self, format!("Binary files a/{} and b/{} differ", a, b));
            }
            SubmoduleShort => {
                meta(self, format!("index {}..{} 160000", h1, h2));
                meta(self, format!("--- a/{}", a));
                meta(self, format!("+++ b/{}", b));
                self.push("@@ -1 +1 @@".into(), LineKind::HunkHeader, None, section, 0);
                let (c1, c2) = (self.hex(40), self.hex(40));
                // these body lines carry no token: delta renders submodule hashes specially
                self.push(format!("-Subproject commit {}", c1), LineKind::Minus, None, section, 0);
                self.push(format!("+Subproject commit {}", c2), LineKind::Plus, None, section, 0);
            }
            EmptyNew => {
                meta(self, "new file mode 100644".into());
                meta(self, "index 0000000..e69de29".into());
            }
            CombinedModified | CombinedBinary | RenamedBinary | TwoNameBinary | SubmoduleLog | CombinedConflict | CombinedConflictOpen | TwoNameModeOnly => {}
        }
    }

    pub fn commit_preamble(&mut self) {
        let h = self.hex(40);
        self.push(format!("commit {}", h), LineKind::Meta, None, usize::MAX, 0);
        self.push("Author: A U Thor <author@example.com>".into(), LineKind::Meta, None, usize::MAX, 0);
        self.push("Date:   Mon Jan 1 10:00:00 2024 +0000".into(), LineKind::Meta, None, usize::MAX, 0);
        self.push("".into(), LineKind::Meta, None, usize::MAX, 0);
        self.push("    a commit message".into(), LineKind::Meta, None, usize::MAX, 0);
        self.push("".into(), LineKind::Meta, None, usize::MAX, 0);
    }
}

fn git_needs_quoting(name: &str) -> bool {
    name.bytes().any(|b| b >= 0x80 || b == b'"' || b == b'\\' || b < 0x20)
}

/// git's C-style quoting of a path (`core.quotePath=true`, the default)
fn git_cquote(path: &str) -> String {
    let mut s = String::from("\"");
    for b in path.bytes() {
        match b {
            b'"' => s.push_str("\\\""),
            b'\\' => s.push_str("\\\\"),
            b'\t' => s.push_str("\\t"),
            b'\n' => s.push_str("\\n"),
            0x20..=0x7e => s.push(b as char),
            _ => s.push_str(&format!("\\{:03o}", b)),
        }
    }
    s.push('"');
    s
}

/// Rewrites the paths of one header line the way git writes them under `path_style` (see GenParams).
/// `names`: the paths the section is about; a line that is not recognised stays as it is.
fn restyle_paths(text: &str, names: &[String], style: u8) -> String {
    let (pa, pb) = match style {
        1 => ("a/", "b/"),
        2 => ("i/", "w/"),
        3 => ("c/", "w/"),
        4 => ("c/", "i/"),
        _ => ("o/", "w/"),
    };
    // a path behind a prefix, in a position where a TAB may follow it (---/+++ lines)
    let styled = |prefix: &str, name: &str, tab: bool| -> String {
        let full = format!("{}{}", prefix, name);
        if style == 1 && git_needs_quoting(name) {
            git_cquote(&full)
        } else if style == 1 && tab && name.contains(' ') {
            format!("{}\t", full)
        } else {
            full
        }
    };
    let bare = |name: &str| -> String {
        if style == 1 && git_needs_quoting(name) {
            git_cquote(name)
        } else {
            name.to_string()
        }
    };
    for x in names {
        if text == format!("--- a/{}", x) {
            return format!("--- {}", styled(pa, x, true));
        }
        if text == format!("+++ b/{}", x) {
            return format!("+++ {}", styled(pb, x, true));
        }
        for kw in ["rename from ", "rename to ", "copy from ", "copy to ", "diff --cc "] {
            if text == format!("{}{}", kw, x) {
                return format!("{}{}", kw, bare(x));
            }
        }
        for y in names {
            if text == format!("diff --git a/{} b/{}", x, y) {
                return format!("diff --git {} {}", styled(pa, x, false), styled(pb, y, false));
            }
            if text == format!("Binary files a/{} and b/{} differ", x, y) {
                return format!("Binary files {} and {} differ", styled(pa, x, false), styled(pb, y, false));
            }
        }
    }
    text.to_string()
}

pub fn generate(rng: &mut Rng, p: &GenParams) -> Vec<GLine> {
    let mut g = Gen::new(rng);
    if p.with_commit_preamble && p.flavor != Flavor::DiffU {
        g.commit_preamble();
    }
    let same_path = p.sections.len() > 1 && g.rng.chance(1, 6);
    if same_path {
        let n = g.fname(0);
        g.forced_name = Some(n);
    }
    // `git log -p`: every file section may be a commit of its own; git puts an empty line between a
    // patch and the next commit, a custom --format may not
    let log_stream = p.with_commit_preamble && p.flavor != Flavor::DiffU && g.rng.chance(1, 2);
    for (i, k) in p.sections.iter().enumerate() {
        if i > 0 && log_stream {
            if g.rng.chance(2, 3) {
                g.push("".into(), LineKind::Meta, None, usize::MAX, 0);
            }
            g.commit_preamble();
        }
        g.section(p, *k, i);
    }
    g.lines
}

/// One section on its own, with a chosen first token number (so that sections
/// generated separately and concatenated have unique tokens).
pub fn generate_section(rng: &mut Rng, p: &GenParams, kind: SectionKind, section: usize, first_token: usize) -> Vec<GLine> {
    generate_section_named(rng, p, kind, section, first_token, None)
}

/// A file section preceded by a commit header (as in `git log -p` / `git show`), optionally with
/// `--stat` lines.
pub fn generate_commit_unit(rng: &mut Rng, p: &GenParams, kind: SectionKind, section: usize, first_token: usize, name: Option<String>, with_stat: bool) -> Vec<GLine> {
    let mut g = Gen::new(rng);
    g.forced_name = name;
    g.next_token = first_token;
    // one unit in four begins with a commit that has no patch (a merge commit, an empty commit, a
    // `--stat` only entry): non-diff material between the previous file section and this one
    if g.rng.chance(1, 4) {
        g.commit_preamble();
        if g.rng.chance(1, 2) {
            g.push(" docs/guide.md | 2 +-".into(), LineKind::Meta, None, usize::MAX, 0);
            g.push(" 1 file changed, 1 insertion(+), 1 deletion(-)".into(), LineKind::Meta, None, usize::MAX, 0);
            g.push("".into(), LineKind::Meta, None, usize::MAX, 0);
        }
        if g.rng.chance(1, 3) {
            g.push("Notes:".into(), LineKind::Meta, None, usize::MAX, 0);
            g.push("    reviewed; see ticket 4711".into(), LineKind::Meta, None, usize::MAX, 0);
            g.push("".into(), LineKind::Meta, None, usize::MAX, 0);
        }
    }
    g.commit_preamble();
    if with_stat {
        let n = g.fname(section);
        g.push(format!(" {} | 4 ++--", n), LineKind::Meta, None, section, 0);
        g.push(" 1 file changed, 2 insertions(+), 2 deletions(-)".into(), LineKind::Meta, None, section, 0);
        g.push("".into(), LineKind::Meta, None, section, 0);
    }
    g.section(p, kind, section);
    // git separates commits by an empty line
    if g.rng.chance(2, 3) {
        g.push("".into(), LineKind::Meta, None, section, 0);
    }
    g.lines
}

pub fn generate_section_named(rng: &mut Rng, p: &GenParams, kind: SectionKind, section: usize, first_token: usize, name: Option<String>) -> Vec<GLine> {
    let mut g = Gen::new(rng);
    g.forced_name = name;
    g.next_token = first_token;
    g.section(p, kind, section);
    g.lines
}

/// Stands for three bytes that are not UTF-8 (same length as the mark's own encoding, so byte
/// offsets computed from the text stay right).
pub const INVALID_MARK: char = '\u{E000}';
/// At the end of the last line: the input ends without a final newline.
pub const NO_FINAL_NEWLINE_MARK: char = '\u{E001}';

pub fn to_bytes(lines: &[GLine]) -> Vec<u8> {
    let mut v = Vec::new();
    for (i, l) in lines.iter().enumerate() {
        if i + 1 == lines.len() && l.text.ends_with(NO_FINAL_NEWLINE_MARK) {
            v.extend_from_slice(l.text.trim_end_matches(NO_FINAL_NEWLINE_MARK).as_bytes());
            break;
        }
        v.extend_from_slice(l.text.as_bytes());
        v.push(b'\n');
    }
    // EE 80 80 is U+E000
    let mut i = 0;
    while i + 2 < v.len() {
        if v[i] == 0xEE && v[i + 1] == 0x80 && v[i + 2] == 0x80 {
            v[i] = 0xFF;
            v[i + 1] = 0xC0;
            v[i + 2] = 0xFE;
            i += 3;
        } else {
            i += 1;
        }
    }
    v
}

/// What git sends to a pager by default (`color.ui = auto` counts the pager as a terminal): every
/// line wrapped in SGR sequences.  `flavour` 1: plain `git diff` colours; 2: additionally
/// `--color-moved` colours on some -/+ lines and whitespace-error highlighting at line ends;
/// 3: `--graph` prefixes are not generated (they change the column of the markers).
pub fn add_git_colors(lines: &mut [GLine], rng: &mut Rng) -> String {
    let flavour = 1 + rng.below(2);
    for l in lines.iter_mut() {
        let t = std::mem::take(&mut l.text);
        let no_final = t.ends_with(NO_FINAL_NEWLINE_MARK);
        let t = t.trim_end_matches(NO_FINAL_NEWLINE_MARK).to_string();
        l.text = match l.kind {
            LineKind::Meta => {
                if t.starts_with("diff ") || t.starts_with("index ") || t.starts_with("--- ") || t.starts_with("+++ ") || t.starts_with("new file") || t.starts_with("deleted file") || t.starts_with("old mode") || t.starts_with("new mode") || t.starts_with("similarity") || t.starts_with("rename ") || t.starts_with("copy ") {
                    format!("\x1b[1m{}\x1b[m", t)
                } else if t.starts_with("commit ") {
                    format!("\x1b[33m{}\x1b[m", t)
                } else if flavour == 2 && t.starts_with("Submodule ") {
                    // git before 2.15 and colourisers in front of delta paint this header too
                    format!("\x1b[1m{}\x1b[m", t)
                } else {
                    t
                }
            }
            LineKind::HunkHeader => match t.rfind("@@") {
                Some(i) if i > 0 => format!("\x1b[36m{}\x1b[m{}", &t[..i + 2], &t[i + 2..]),
                _ => format!("\x1b[36m{}\x1b[m", t),
            },
            LineKind::Minus => {
                if flavour == 2 && rng.chance(1, 5) {
                    format!("\x1b[1;35m{}\x1b[m", t)
                } else {
                    format!("\x1b[31m{}\x1b[m", t)
                }
            }
            LineKind::Plus => {
                if flavour == 2 && rng.chance(1, 5) {
                    format!("\x1b[1;36m{}\x1b[m", t)
                } else if flavour == 2 && rng.chance(1, 6) {
                    format!("\x1b[32m{}\x1b[m\x1b[41m  \x1b[m", t)
                } else {
                    format!("\x1b[32m{}\x1b[m", t)
                }
            }
            LineKind::Context | LineKind::NoNewline => t,
        };
        if no_final {
            l.text.push(NO_FINAL_NEWLINE_MARK);
        }
    }
    format!("git-colors{}", flavour)
}

/// Properties of the byte stream rather than of the diff: CRLF line ends in file content (all or
/// some body lines), bytes that are not UTF-8 inside body lines, no newline after the last line.
/// Returns a label for coverage accounting.
pub fn add_byte_features(lines: &mut [GLine], rng: &mut Rng) -> String {
    let crlf = match rng.below(8) {
        0 => 2,
        1 => 1,
        _ => 0,
    };
    let invalid = rng.chance(1, 6);
    let no_final = rng.chance(1, 10);
    let n = lines.len();
    for (i, l) in lines.iter_mut().enumerate() {
        if !matches!(l.kind, LineKind::Context | LineKind::Minus | LineKind::Plus) {
            continue;
        }
        if invalid && l.token.is_some() && rng.chance(1, 4) {
            l.text.push(INVALID_MARK);
            l.text.push_str("tail");
        }
        if crlf == 2 || (crlf == 1 && rng.chance(1, 3)) {
            l.text.push('\r');
        }
        if no_final && i + 1 == n {
            l.text.push(NO_FINAL_NEWLINE_MARK);
        }
    }
    format!("crlf{}{}{}", crlf, if invalid { "+invalid-utf8" } else { "" }, if no_final { "+no-final-newline" } else { "" })
}


/// Minimisation that keeps the input a well-formed diff: whole hunks (header and body) and whole
/// file sections are dropped, never single lines out of the middle (a `--- a/x` line followed by a
/// stray context line is not a diff, and a verdict about it means nothing), then the tail is cut
/// (every prefix of a diff is a legitimate pause point).
pub fn minimise_lines(lines: Vec<GLine>, budget: &mut usize, fails: &mut dyn FnMut(&[GLine]) -> bool) -> Vec<GLine> {
    // units: (section, Some(k)) = k-th hunk block of the section, (section, None) = its other lines
    let mut unit_of: Vec<(usize, Option<usize>)> = Vec::with_capacity(lines.len());
    let mut hunk_no = 0usize;
    let mut in_hunk = false;
    let mut cur_section = usize::MAX;
    for l in &lines {
        if l.section != cur_section {
            cur_section = l.section;
            in_hunk = false;
        }
        match l.kind {
            LineKind::HunkHeader => {
                hunk_no += 1;
                in_hunk = true;
                unit_of.push((l.section, Some(hunk_no)));
            }
            LineKind::Meta => {
                in_hunk = false;
                unit_of.push((l.section, None));
            }
            _ => unit_of.push((l.section, if in_hunk { Some(hunk_no) } else { None })),
        }
    }
    let mut units: Vec<(usize, Option<usize>)> = Vec::new();
    for u in &unit_of {
        // a section's non-hunk lines are a unit of their own only when it has no hunks at all
        if !units.contains(u) {
            units.push(*u);
        }
    }
    let has_hunks = |sec: usize| units.iter().any(|(s, h)| *s == sec && h.is_some());
    let droppable: Vec<(usize, Option<usize>)> = units.iter().copied().filter(|(s, h)| h.is_some() || !has_hunks(*s)).collect();
    let assemble = |keep: &[(usize, Option<usize>)]| -> Vec<GLine> {
        lines
            .iter()
            .zip(unit_of.iter())
            .filter(|(_, u)| match u.1 {
                Some(_) => keep.contains(u),
                // header and other lines of a section stay as long as anything of the section stays
                None => keep.iter().any(|(s, _)| *s == u.0),
            })
            .map(|(l, _)| l.clone())
            .collect()
    };
    let kept = crate::text::ddmin(droppable, budget, &mut |keep: &[(usize, Option<usize>)]| {
        let cand = assemble(keep);
        !cand.is_empty() && fails(&cand)
    });
    let mut cur = assemble(&kept);
    // cut the tail
    let mut step = cur.len() / 2;
    while step >= 1 && *budget > 0 && cur.len() > 1 {
        if step >= cur.len() {
            step = cur.len() / 2;
            if step == 0 {
                break;
            }
        }
        let cand: Vec<GLine> = cur[..cur.len() - step].to_vec();
        *budget -= 1;
        if fails(&cand) {
            cur = cand;
        } else {
            step /= 2;
        }
    }
    cur
}

pub fn random_params(rng: &mut Rng, pivot: usize) -> GenParams {
    let flavor = match rng.below(10) {
        0 | 1 => Flavor::DiffU,
        2 => Flavor::GitCombined,
        _ => Flavor::Git,
    };
    let ns = rng.range(1, 4);
    let mut sections = Vec::new();
    for _ in 0..ns {
        let k = if flavor == Flavor::Git {
            // bias towards sections with hunks
            if rng.chance(3, 5) {
                *rng.pick(&[SectionKind::Modified, SectionKind::ModifiedEndsChanged, SectionKind::Added, SectionKind::Deleted, SectionKind::RenamedChanged, SectionKind::ModeAndChange])
            } else {
                *rng.pick(ALL_SECTION_KINDS)
            }
        } else if rng.chance(1, 2) {
            SectionKind::Modified
        } else {
            SectionKind::ModifiedEndsChanged
        };
        sections.push(k);
    }
    GenParams {
        flavor,
        sections,
        max_hunks: rng.range(1, 4),
        pivot,
        max_run: rng.range(2, 12),
        with_commit_preamble: rng.chance(1, 4),
        multibyte: rng.chance(1, 3),
        no_newline_marker: rng.chance(1, 3),
        similar_pairs: rng.chance(1, 2),
        no_index_lines: rng.chance(1, 8),
        no_prefix: rng.chance(1, 10),
        line_number_class: 0,
        long_line_pct: *rng.pick(&[0u8, 8, 8, 8, 50, 100]),
        path_style: 0,
    }
}

// ---------------------------------------------------------------------------
// delta option swarm

#[derive(Clone, Debug, Serialize, Deserialize)]
pub struct DeltaOpts {
    pub args: Vec<String>,
    pub line_buffer_size: usize,
    pub side_by_side: bool,
    pub color_only: bool,
}

pub const BUFFER_SIZES: &[usize] = &[0, 1, 2, 3, 8, 32];

/// Options that change how hunks are rendered but never what text is shown
/// (tokens stay visible, one per body line).
pub fn random_delta_opts(rng: &mut Rng) -> DeltaOpts {
    let mut a: Vec<String> = vec!["--no-gitconfig".into()];
    let mut push = |s: &str| a.push(s.to_string());
    let width = *rng.pick(&[100usize, 120, 160, 200]);
    push("--width");
    push(&width.to_string());
    let mode = rng.below(10);
    let side_by_side = (3..6).contains(&mode);
    let color_only = mode == 9;
    if side_by_side {
        push("--side-by-side");
    }
    if color_only {
        push("--color-only");
    }
    if rng.chance(2, 5) {
        push("--line-numbers");
    }
    let lbs = *rng.pick(BUFFER_SIZES);
    if lbs != 32 || rng.chance(1, 2) {
        push("--line-buffer-size");
        push(&lbs.to_string());
    }
    if rng.chance(1, 5) {
        push("--keep-plus-minus-markers");
    }
    if rng.chance(3, 10) {
        push("--max-line-distance");
        push(*rng.pick(&["0.0", "0.3", "0.6", "1.0"]));
    }
    if rng.chance(3, 20) {
        push("--navigate");
    }
    if rng.chance(3, 10) {
        push("--hunk-header-style");
        push(*rng.pick(&["omit", "raw", "syntax", "file line-number syntax"]));
    }
    if rng.chance(1, 10) {
        push("--hunk-header-decoration-style");
        push(*rng.pick(&["none", "box", "ul", "blue box ul"]));
    }
    if rng.chance(1, 6) {
        push("--commit-decoration-style");
        push(*rng.pick(&["box", "ul", "bold yellow box ul", "none"]));
    }
    if rng.chance(1, 8) {
        push("--commit-style");
        push(*rng.pick(&["bold yellow", "raw", "blue"]));
    }
    if rng.chance(1, 10) {
        push("--file-decoration-style");
        push(*rng.pick(&["none", "box", "ul ol", "omit"]));
    }
    if rng.chance(1, 2) {
        push("--syntax-theme");
        push("none");
    }
    if rng.chance(1, 20) {
        push("--diff-so-fancy");
    }
    if rng.chance(1, 20) {
        push("--diff-highlight");
    }
    if rng.chance(1, 10) {
        push("--true-color");
        push(*rng.pick(&["always", "never"]));
    }
    if rng.chance(1, 12) {
        push("--relative-paths");
    }
    if side_by_side && rng.chance(1, 3) {
        push("--wrap-max-lines");
        push(*rng.pick(&["0", "1", "5", "unlimited"]));
    }
    if rng.chance(1, 12) {
        push("--line-fill-method");
        push(*rng.pick(&["ansi", "spaces"]));
    }
    DeltaOpts { args: a, line_buffer_size: lbs, side_by_side, color_only }
}

// ---------------------------------------------------------------------------
// other input kinds (no ground truth needed beyond tokens)

pub fn blame_input(rng: &mut Rng, n: usize) -> Vec<u8> {
    let mut out = String::new();
    let mut commit = String::new();
    let mut author = "";
    // a pool of commits that come back again and again (A B C D A ...), as in real blame output;
    // more commits than the default palette has colours
    let pool: Vec<(String, &str)> = (0..rng.range(2, 7)).map(|_| ((0..8).map(|_| std::char::from_digit(rng.below(16) as u32, 16).unwrap()).collect::<String>(), *rng.pick(&["Dan Davison", "A U Thor", "José Ångström"]))).collect();
    for i in 0..n {
        if i == 0 || rng.chance(1, 2) {
            let (c, a) = rng.pick(&pool).clone();
            commit = c;
            author = a;
        }
        out.push_str(&format!("{} ({:<14} 2021-0{}-1{} 1{}:0{}:00 +0100 {:>3}) T{:06} let v{} = {};\n", commit, author, rng.range(1, 9), rng.range(0, 9), rng.range(0, 9), rng.range(0, 9), i + 1, i, i, rng.below(100)));
    }
    out.into_bytes()
}

pub fn grep_input(rng: &mut Rng, n: usize) -> Vec<u8> {
    let mut out = String::new();
    let mut file = String::from("src/main.rs");
    for i in 0..n {
        if rng.chance(1, 4) {
            file = format!("src/f{}.{}", rng.below(20), rng.pick(&["rs", "py", "c"]));
        }
        let sep = if rng.chance(4, 5) { ':' } else { '-' };
        out.push_str(&format!("{}{}{}{} T{:06} fn match_{}() {{}}\n", file, sep, rng.range(1, 900), sep, i, rng.below(50)));
    }
    out.into_bytes()
}

pub fn plain_text(rng: &mut Rng, n: usize) -> Vec<u8> {
    let mut out = String::new();
    for i in 0..n {
        out.push_str(&format!("T{:06} {}\n", i, rng.pick(WORDS)));
    }
    out.into_bytes()
}


/// Rewrite the start line numbers of a unified hunk header (`@@ -a,b +c,d @@ rest`), keeping the
/// counts: used to give repeated hunks ascending, distinct positions.
pub fn renumber_hunk_header(text: &str, start: usize) -> String {
    if !text.starts_with("@@ -") {
        return text.to_string();
    }
    let rest = &text[4..];
    let (old, after_old) = match rest.split_once(" +") {
        Some(x) => x,
        None => return text.to_string(),
    };
    let (new, tail) = match after_old.split_once(" @@") {
        Some(x) => x,
        None => return text.to_string(),
    };
    let count = |s: &str| s.split_once(',').map(|(_, c)| format!(",{}", c)).unwrap_or_default();
    format!("@@ -{}{} +{}{} @@{}", start, count(old), start + 1, count(new), tail)
}
