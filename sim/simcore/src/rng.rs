//! The one PRNG.  Everything a run decides is drawn from an `Rng` seeded by
//! `mix(VERIF_SEED, engine, property, run index)`, so results do not depend on
//! the number of worker threads.  Logging never draws from it.

#[derive(Clone, Debug)]
pub struct Rng {
    s: [u64; 4],
}

pub fn splitmix64(state: &mut u64) -> u64 {
    *state = state.wrapping_add(0x9e3779b97f4a7c15);
    let mut z = *state;
    z = (z ^ (z >> 30)).wrapping_mul(0xbf58476d1ce4e5b9);
    z = (z ^ (z >> 27)).wrapping_mul(0x94d049bb133111eb);
    z ^ (z >> 31)
}

/// Derive a seed from a base seed and a list of tags (engine, property, index ...).
pub fn mix(base: u64, tags: &[u64]) -> u64 {
    let mut st = base ^ 0x5bd1e995_9e3779b9;
    let mut out = splitmix64(&mut st);
    for t in tags {
        st ^= t.wrapping_mul(0xff51afd7ed558ccd).rotate_left(17);
        out ^= splitmix64(&mut st).rotate_left(23);
        st = st.wrapping_add(out);
    }
    splitmix64(&mut st) ^ out
}

pub fn tag(s: &str) -> u64 {
    let mut h: u64 = 0xcbf29ce484222325;
    for b in s.bytes() {
        h ^= b as u64;
        h = h.wrapping_mul(0x100000001b3);
    }
    h
}

pub fn fnv64(data: &[u8]) -> u64 {
    let mut h: u64 = 0xcbf29ce484222325;
    for b in data {
        h ^= *b as u64;
        h = h.wrapping_mul(0x100000001b3);
    }
    h
}

impl Rng {
    pub fn new(seed: u64) -> Self {
        let mut st = seed;
        let s = [
            splitmix64(&mut st),
            splitmix64(&mut st),
            splitmix64(&mut st),
            splitmix64(&mut st),
        ];
        Rng { s }
    }

    /// xoshiro256**
    pub fn next_u64(&mut self) -> u64 {
        let result = self.s[1].wrapping_mul(5).rotate_left(7).wrapping_mul(9);
        let t = self.s[1] << 17;
        self.s[2] ^= self.s[0];
        self.s[3] ^= self.s[1];
        self.s[1] ^= self.s[2];
        self.s[0] ^= self.s[3];
        self.s[2] ^= t;
        self.s[3] = self.s[3].rotate_left(45);
        result
    }

    /// uniform in [0, n)
    pub fn below(&mut self, n: u64) -> u64 {
        if n == 0 {
            return 0;
        }
        // multiply-shift; bias is irrelevant here
        ((self.next_u64() as u128 * n as u128) >> 64) as u64
    }

    /// uniform in [lo, hi] inclusive
    pub fn range(&mut self, lo: usize, hi: usize) -> usize {
        if hi <= lo {
            return lo;
        }
        lo + self.below((hi - lo + 1) as u64) as usize
    }

    pub fn chance(&mut self, num: u64, den: u64) -> bool {
        self.below(den) < num
    }

    pub fn pick<'a, T>(&mut self, xs: &'a [T]) -> &'a T {
        &xs[self.below(xs.len() as u64) as usize]
    }

    pub fn shuffle<T>(&mut self, xs: &mut [T]) {
        for i in (1..xs.len()).rev() {
            let j = self.below((i + 1) as u64) as usize;
            xs.swap(i, j);
        }
    }

    pub fn fork(&mut self) -> Rng {
        Rng::new(self.next_u64())
    }
}

pub fn verif_seed() -> u64 {
    std::env::var("VERIF_SEED")
        .ok()
        .and_then(|s| s.trim().parse::<u64>().ok())
        .unwrap_or(1)
}
