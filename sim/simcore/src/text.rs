//! Helpers on rendered bytes: escape-sequence removal, token extraction, byte
//! blobs that survive a round trip through JSON replay files.

use serde::{Deserialize, Serialize};
use std::collections::HashSet;

/// Remove CSI (`ESC [ ... final`), OSC (`ESC ] ... BEL | ESC \`) and two-byte
/// escape sequences.  Works on bytes: input need not be valid UTF-8.
pub fn strip_ansi(data: &[u8]) -> Vec<u8> {
    let mut out = Vec::with_capacity(data.len());
    let mut i = 0;
    while i < data.len() {
        let b = data[i];
        if b == 0x1b {
            if i + 1 >= data.len() {
                break; // truncated escape at the end of a prefix
            }
            match data[i + 1] {
                b'[' => {
                    i += 2;
                    while i < data.len() && !(0x40..=0x7e).contains(&data[i]) {
                        i += 1;
                    }
                    i += 1;
                }
                b']' => {
                    i += 2;
                    while i < data.len() {
                        if data[i] == 0x07 {
                            i += 1;
                            break;
                        }
                        if data[i] == 0x1b && i + 1 < data.len() && data[i + 1] == b'\\' {
                            i += 2;
                            break;
                        }
                        i += 1;
                    }
                }
                _ => i += 2,
            }
        } else {
            out.push(b);
            i += 1;
        }
    }
    out
}

/// All `T` + 6 digits tokens present in (already stripped) text.
pub fn tokens_in(stripped: &[u8]) -> HashSet<u32> {
    let mut set = HashSet::new();
    let n = stripped.len();
    let mut i = 0;
    while i + 7 <= n {
        if stripped[i] == b'T' && stripped[i + 1..i + 7].iter().all(|c| c.is_ascii_digit()) {
            let mut v = 0u32;
            for c in &stripped[i + 1..i + 7] {
                v = v * 10 + (*c - b'0') as u32;
            }
            set.insert(v);
            i += 7;
        } else {
            i += 1;
        }
    }
    set
}

/// Tokens in order of first appearance.
pub fn token_sequence(stripped: &[u8]) -> Vec<u32> {
    let mut seq = Vec::new();
    let n = stripped.len();
    let mut i = 0;
    while i + 7 <= n {
        if stripped[i] == b'T' && stripped[i + 1..i + 7].iter().all(|c| c.is_ascii_digit()) {
            let mut v = 0u32;
            for c in &stripped[i + 1..i + 7] {
                v = v * 10 + (*c - b'0') as u32;
            }
            seq.push(v);
            i += 7;
        } else {
            i += 1;
        }
    }
    seq
}

pub fn token_num(tok: &str) -> u32 {
    tok[1..].parse().unwrap_or(u32::MAX)
}

/// Bytes that round-trip through JSON: UTF-8 text when possible, hex otherwise.
#[derive(Clone, Debug, Default, PartialEq, Eq)]
pub struct Blob(pub Vec<u8>);

#[derive(Serialize, Deserialize)]
#[serde(untagged)]
enum BlobRepr {
    Text(String),
    Hex { hex: String },
}

impl Serialize for Blob {
    fn serialize<S: serde::Serializer>(&self, s: S) -> Result<S::Ok, S::Error> {
        match std::str::from_utf8(&self.0) {
            Ok(t) => BlobRepr::Text(t.to_string()).serialize(s),
            Err(_) => {
                let mut h = String::with_capacity(self.0.len() * 2);
                for b in &self.0 {
                    h.push_str(&format!("{:02x}", b));
                }
                BlobRepr::Hex { hex: h }.serialize(s)
            }
        }
    }
}

impl<'de> Deserialize<'de> for Blob {
    fn deserialize<D: serde::Deserializer<'de>>(d: D) -> Result<Self, D::Error> {
        Ok(match BlobRepr::deserialize(d)? {
            BlobRepr::Text(t) => Blob(t.into_bytes()),
            BlobRepr::Hex { hex } => {
                let b = hex.as_bytes();
                let mut v = Vec::with_capacity(b.len() / 2);
                let mut i = 0;
                while i + 1 < b.len() {
                    let s = std::str::from_utf8(&b[i..i + 2]).unwrap_or("00");
                    v.push(u8::from_str_radix(s, 16).unwrap_or(0));
                    i += 2;
                }
                Blob(v)
            }
        })
    }
}

impl From<Vec<u8>> for Blob {
    fn from(v: Vec<u8>) -> Self {
        Blob(v)
    }
}
impl From<&str> for Blob {
    fn from(v: &str) -> Self {
        Blob(v.as_bytes().to_vec())
    }
}

/// Generic delta-debugging minimiser over a list: repeatedly try to drop
/// chunks while `fails` stays true.  At most `budget` evaluations.
pub fn ddmin<T: Clone>(items: Vec<T>, budget: &mut usize, fails: &mut dyn FnMut(&[T]) -> bool) -> Vec<T> {
    let mut cur = items;
    let mut n = 2usize;
    while cur.len() >= 2 && *budget > 0 {
        let chunk = (cur.len() + n - 1) / n;
        let mut reduced = false;
        let mut start = 0;
        while start < cur.len() && *budget > 0 {
            let end = (start + chunk).min(cur.len());
            let mut cand: Vec<T> = Vec::with_capacity(cur.len());
            cand.extend_from_slice(&cur[..start]);
            cand.extend_from_slice(&cur[end..]);
            *budget -= 1;
            if !cand.is_empty() && fails(&cand) {
                cur = cand;
                n = n.saturating_sub(1).max(2);
                reduced = true;
                // do not advance start: the next chunk moved into place
            } else {
                start = end;
            }
        }
        if !reduced {
            if chunk <= 1 {
                break;
            }
            n = (n * 2).min(cur.len());
        }
    }
    cur
}
impl From<String> for Blob {
    fn from(v: String) -> Self {
        Blob(v.into_bytes())
    }
}

/// Like `strip_ansi`, but also returns for every kept byte the offset just after it in the raw
/// data (so that "is this text visible in the first n raw bytes" can be answered for every n).
pub fn strip_ansi_with_offsets(data: &[u8]) -> (Vec<u8>, Vec<usize>) {
    let mut out = Vec::with_capacity(data.len());
    let mut offs = Vec::with_capacity(data.len());
    let mut i = 0;
    while i < data.len() {
        let b = data[i];
        if b == 0x1b {
            if i + 1 >= data.len() {
                break;
            }
            match data[i + 1] {
                b'[' => {
                    i += 2;
                    while i < data.len() && !(0x40..=0x7e).contains(&data[i]) {
                        i += 1;
                    }
                    i += 1;
                }
                b']' => {
                    i += 2;
                    while i < data.len() {
                        if data[i] == 0x07 {
                            i += 1;
                            break;
                        }
                        if data[i] == 0x1b && i + 1 < data.len() && data[i + 1] == b'\\' {
                            i += 2;
                            break;
                        }
                        i += 1;
                    }
                }
                _ => i += 2,
            }
        } else {
            out.push(b);
            i += 1;
            offs.push(i);
        }
    }
    (out, offs)
}

/// For every token `T%06d` in the raw output: the raw offset at which its first occurrence is
/// complete.
pub fn token_visibility(raw: &[u8]) -> std::collections::HashMap<u32, usize> {
    let (st, offs) = strip_ansi_with_offsets(raw);
    let mut m = std::collections::HashMap::new();
    let n = st.len();
    let mut i = 0;
    while i + 7 <= n {
        if st[i] == b'T' && st[i + 1..i + 7].iter().all(|c| c.is_ascii_digit()) {
            let mut v = 0u32;
            for c in &st[i + 1..i + 7] {
                v = v * 10 + (*c - b'0') as u32;
            }
            m.entry(v).or_insert(offs[i + 6]);
            i += 7;
        } else {
            i += 1;
        }
    }
    m
}
