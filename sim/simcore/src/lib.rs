pub mod evidence;
pub mod gen;
pub mod rng;
pub mod text;

pub use serde;
pub use serde_json;
