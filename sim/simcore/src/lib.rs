pub mod c13m;
pub mod evidence;
pub mod gen;
pub mod lag;
pub mod report;
pub mod rng;
pub mod text;

pub use serde;
pub use serde_json;
