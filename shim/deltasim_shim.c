/*
 * libdeltasim.so -- syscall-seam simulator agent for the real `delta` binary (engine E1).
 *
 * Loaded with LD_PRELOAD.  Inert unless DELTASIM_PLAN names a plan file and
 * /proc/self/exe is called "delta".  It removes LD_PRELOAD from the environment
 * so that peers spawned by delta (pager, git, rg, less --version) run untouched.
 *
 * What it owns (all decided by the plan file, never by time):
 *   - read(0): chunk sizes and EINTR before a read            (input delivery schedule)
 *   - write/writev on the output channel (fd 1, or a FIFO fd > 2 written by the
 *     main thread = pipe to the pager): short writes, EINTR, sticky failure with
 *     a chosen errno from the k-th call on                    (consumer faults)
 *   - getrandom: per-thread PRNG stream derived from `seed`   (hash-map keys)
 *   - clock_gettime(CLOCK_REALTIME)/gettimeofday/time: pinned  (wall clock)
 *   - SIGINT raised at a chosen logged point                  (signal)
 *   - waitpid/waitid/exit: logged; a token is written to the gate FIFO so a
 *     gated stub pager can only exit after delta waits for it or exits.
 *
 * Every intercepted event of the main thread is appended to the event log with
 * one raw write(2) on an O_APPEND descriptor (atomic line, totally ordered with
 * the records peers append to the same file).
 */
#define _GNU_SOURCE
#include <dlfcn.h>
#include <errno.h>
#include <fcntl.h>
#include <poll.h>
#include <signal.h>
#include <stdarg.h>
#include <stdint.h>
#include <stdio.h>
#include <stdlib.h>
#include <string.h>
#include <sys/stat.h>
#include <sys/syscall.h>
#include <sys/time.h>
#include <sys/types.h>
#include <sys/uio.h>
#include <sys/wait.h>
#include <time.h>
#include <unistd.h>
#include <malloc.h>
#include <spawn.h>

#define MAXLIST 4096

static int active = 0;
static int log_fd = -1;
static int gate_fd = -1;
static char gate_path[1024];

static uint64_t plan_seed = 1;
static int64_t plan_clock = 1700000000;
static int n_rchunks = 0;
static long rchunks[MAXLIST];
static int n_wplan = 0;
static long wplan[MAXLIST];
/* simulated time: the producer pauses rdelays_ms[k] before the k-th read(0) is answered;
 * both the monotonic and the wall clock advance by exactly the sum of the pauses so far */
static int n_rdelays = 0;
static long rdelays[MAXLIST];
static int64_t sim_elapsed_ns = 0;
static int64_t clock_ticks = 0;
static int own_monotonic = 0;
/* the scan of the process table (background thread) takes this long: real sleep, once, at the
 * thread's first read(2); lets a run put the end of the scan after the main thread's first queries */
static long scan_delay_ms = 0;
static int scan_delayed = 0;
/* fault in the scan of the process table (background thread): reads of /proc/<pid>/cmdline
 * 1: every process reads as an empty command line (zombie / kernel thread / exited between two reads)
 * 2: every process except delta and its parent      3: only delta's parent
 * 4: every such read fails with ESRCH (the process exited while it was being read) */
static int scan_cmdline_mode = 0;
static long scan_faults = 0;
static long wfail_at = -1;
static int wfail_errno = EPIPE;
static int wfail_sticky = 1;
static char sigint_kind = 0; /* 'w', 'r', 'W'(ait), 'B'(lock) */
static long sigint_idx = -1;
static int want_heap = 0;
static int log_all_reads = 0;

/* main-thread state */
static long r_calls = 0;     /* read(0) calls answered (including EINTR) */
static long r_bytes = 0;     /* bytes delivered on fd 0 */
static long w_calls = 0;     /* channel write attempts that were not answered by injected EINTR */
static long w_all = 0;       /* all channel write calls */
static long w_bytes = 0;     /* bytes accepted on the channel */
static long seq = 0;
static int failed = 0;
static int waits = 0;
static ino_t selfpipe_ino = 0;
static __thread volatile int in_raise = 0;
static int sigint_done = 0;

static ssize_t (*real_read)(int, void *, size_t);
static ssize_t (*real_write)(int, const void *, size_t);
static ssize_t (*real_writev)(int, const struct iovec *, int);
static pid_t (*real_waitpid)(pid_t, int *, int);
static int (*real_waitid)(idtype_t, id_t, siginfo_t *, int);
static int (*real_clock_gettime)(clockid_t, struct timespec *);

static int is_main_thread(void) { return syscall(SYS_gettid) == getpid(); }

static void logf_(const char *fmt, ...) {
    if (log_fd < 0) return;
    char buf[768];
    int n = snprintf(buf, sizeof buf, "%ld D ", seq++);
    va_list ap;
    va_start(ap, fmt);
    n += vsnprintf(buf + n, sizeof buf - n - 2, fmt, ap);
    va_end(ap);
    if (n > (int)sizeof buf - 2) n = sizeof buf - 2;
    buf[n++] = '\n';
    syscall(SYS_write, log_fd, buf, n);
}

static void gate_token(const char *tok) {
    if (!gate_path[0]) return;
    if (gate_fd < 0) {
        int fd = open(gate_path, O_WRONLY | O_NONBLOCK | O_CLOEXEC);
        if (fd < 0) return;
        gate_fd = fcntl(fd, F_DUPFD_CLOEXEC, 1001);
        close(fd);
        if (gate_fd < 0) return;
    }
    char b[64];
    int n = snprintf(b, sizeof b, "%s\n", tok);
    syscall(SYS_write, gate_fd, b, n);
}

static uint64_t fnv(const void *p, size_t n, uint64_t h) {
    const unsigned char *s = p;
    for (size_t i = 0; i < n; i++) {
        h ^= s[i];
        h *= 0x100000001b3ULL;
    }
    return h;
}

static uint64_t splitmix(uint64_t *s) {
    uint64_t z = (*s += 0x9e3779b97f4a7c15ULL);
    z = (z ^ (z >> 30)) * 0xbf58476d1ce4e5b9ULL;
    z = (z ^ (z >> 27)) * 0x94d049bb133111ebULL;
    return z ^ (z >> 31);
}

static void parse_list(char *s, long *out, int *n) {
    *n = 0;
    char *save = NULL;
    for (char *t = strtok_r(s, " \t\n", &save); t && *n < MAXLIST; t = strtok_r(NULL, " \t\n", &save))
        out[(*n)++] = strtol(t, NULL, 10);
}

static void on_exit_hook(int status, void *arg) {
    (void)arg;
    if (!active) return;
    if (scan_cmdline_mode) logf_("SCANFAULT mode=%d fired=%d", scan_cmdline_mode, scan_faults > 0);
    logf_("EXIT code=%d wtot=%ld rtot=%ld", status, w_bytes, r_bytes);
    gate_token("EXIT");
}

__attribute__((constructor)) static void shim_init(void) {
    real_read = dlsym(RTLD_NEXT, "read");
    real_write = dlsym(RTLD_NEXT, "write");
    real_writev = dlsym(RTLD_NEXT, "writev");
    real_waitpid = dlsym(RTLD_NEXT, "waitpid");
    real_waitid = dlsym(RTLD_NEXT, "waitid");
    real_clock_gettime = dlsym(RTLD_NEXT, "clock_gettime");

    const char *plan = getenv("DELTASIM_PLAN");
    if (!plan || !*plan) return;
    char exe[4096];
    ssize_t n = readlink("/proc/self/exe", exe, sizeof exe - 1);
    if (n <= 0) return;
    exe[n] = 0;
    const char *base = strrchr(exe, '/');
    base = base ? base + 1 : exe;
    if (strcmp(base, "delta") != 0) return;

    /* peers must not inherit the shim */
    unsetenv("LD_PRELOAD");

    FILE *f = fopen(plan, "r");
    if (!f) return;
    static char line[65536];
    char logpath[1024] = "";
    while (fgets(line, sizeof line, f)) {
        char *sp = strchr(line, ' ');
        if (!sp) continue;
        *sp = 0;
        char *val = sp + 1;
        size_t l = strlen(val);
        while (l && (val[l - 1] == '\n' || val[l - 1] == ' ')) val[--l] = 0;
        if (!strcmp(line, "log")) snprintf(logpath, sizeof logpath, "%s", val);
        else if (!strcmp(line, "gate")) snprintf(gate_path, sizeof gate_path, "%s", val);
        else if (!strcmp(line, "seed")) plan_seed = strtoull(val, NULL, 10);
        else if (!strcmp(line, "clock")) plan_clock = strtoll(val, NULL, 10);
        else if (!strcmp(line, "rchunks")) parse_list(val, rchunks, &n_rchunks);
        else if (!strcmp(line, "wplan")) parse_list(val, wplan, &n_wplan);
        else if (!strcmp(line, "rdelays_ms")) { parse_list(val, rdelays, &n_rdelays); own_monotonic = 1; }
        else if (!strcmp(line, "own_monotonic")) own_monotonic = atoi(val);
        else if (!strcmp(line, "scan_delay_ms")) scan_delay_ms = strtol(val, NULL, 10);
        else if (!strcmp(line, "scan_cmdline")) scan_cmdline_mode = atoi(val);
        else if (!strcmp(line, "wfail_at")) wfail_at = strtol(val, NULL, 10);
        else if (!strcmp(line, "wfail_errno")) wfail_errno = atoi(val);
        else if (!strcmp(line, "wfail_sticky")) wfail_sticky = atoi(val);
        else if (!strcmp(line, "heap")) want_heap = atoi(val);
        else if (!strcmp(line, "log_all_reads")) log_all_reads = atoi(val);
        else if (!strcmp(line, "sigint")) {
            sigint_kind = val[0];
            sigint_idx = val[1] == ':' ? strtol(val + 2, NULL, 10) : 0;
        }
    }
    fclose(f);
    if (logpath[0]) {
        int fd = open(logpath, O_WRONLY | O_APPEND | O_CREAT | O_CLOEXEC, 0644);
        if (fd >= 0) {
            log_fd = fcntl(fd, F_DUPFD_CLOEXEC, 1000);
            close(fd);
        }
    }
    active = 1;
    on_exit(on_exit_hook, NULL);
    logf_("START pid=%d", (int)getpid());
}

static void maybe_sigint(char kind, long idx) {
    if (!active || sigint_done || sigint_kind != kind) return;
    if ((kind == 'w' || kind == 'r') && idx != sigint_idx) return;
    sigint_done = 1;
    logf_("SIGINT at=%c:%ld", kind, idx);
    in_raise = 1;
    raise(SIGINT);
    in_raise = 0;
    logf_("SIGINT-SURVIVED");
}

/* Is fd part of the output channel?  fd 1 always; a FIFO with fd > 2 written by
 * the main thread is the pipe to the pager (delta writes to no other pipe),
 * except the ctrlc crate's self-pipe, recognised because it is written from
 * inside the signal handler while we are raising SIGINT. */
static int is_channel(int fd) {
    if (fd == 1) return 1;
    if (fd <= 2 || fd >= 1000) return 0;
    struct stat st;
    if (fstat(fd, &st) != 0 || !S_ISFIFO(st.st_mode)) return 0;
    if (in_raise) {
        selfpipe_ino = st.st_ino;
        return 0;
    }
    if (selfpipe_ino && st.st_ino == selfpipe_ino) return 0;
    return 1;
}

/* Common path for write and writev on the channel.  `total` = requested bytes. */
static ssize_t channel_write(int fd, const struct iovec *iov, int iovcnt, size_t total) {
    long call = w_all++;
    /* 1. scheduled non-fatal faults */
    long plan = -1;
    if (n_wplan > 0) plan = wplan[call % n_wplan];
    if (plan == 0 && !failed) {
        logf_("W fd=%d req=%zu ret=-1 err=%d k=%ld inj=eintr wtot=%ld", fd == 1 ? 1 : 9, total, EINTR, w_calls, w_bytes);
        errno = EINTR;
        return -1;
    }
    long k = w_calls++;
    maybe_sigint('w', k);
    /* 2. fatal fault from the k-th attempt on */
    if (wfail_at >= 0 && (k == wfail_at || (k > wfail_at && wfail_sticky))) {
        failed = 1;
        logf_("W fd=%d req=%zu ret=-1 err=%d k=%ld inj=fail wtot=%ld", fd == 1 ? 1 : 9, total, wfail_errno, k, w_bytes);
        errno = wfail_errno;
        return -1;
    }
    size_t want = total;
    const char *inj = "none";
    if (plan > 0 && (size_t)plan < total) {
        want = (size_t)plan;
        inj = "short";
    }
    /* 3. would this write block?  tell the gate (a stalled pager is released). */
    if (fd != 1 && !(iovcnt == 1 && gate_path[0])) {
        struct pollfd p = {.fd = fd, .events = POLLOUT};
        if (poll(&p, 1, 0) == 0) {
            logf_("W-BLOCK fd=9 k=%ld wtot=%ld", k, w_bytes);
            maybe_sigint('B', 0);
            gate_token("BLOCK");
        }
    }
    /* 4. perform it (at most `want` bytes) */
    ssize_t ret;
    uint64_t h = 0xcbf29ce484222325ULL;
    if (iovcnt == 1 && fd != 1 && gate_path[0]) {
        /* A pipe can be "writable" for poll(2) (a free slot) and still block in the middle of a
         * write that needs more slots than are free.  Try without blocking first; if the pipe takes
         * only a part, say BLOCK to the gate (a stalled pager resumes) and write the rest blocking,
         * so that delta sees what a blocking write gives: the whole count. */
        size_t len = want < iov[0].iov_len ? want : iov[0].iov_len;
        const char *b = iov[0].iov_base;
        int fl = fcntl(fd, F_GETFL);
        size_t done = 0;
        ret = 0;
        if (fl >= 0 && !(fl & O_NONBLOCK) && fcntl(fd, F_SETFL, fl | O_NONBLOCK) == 0) {
            ssize_t r = real_write(fd, b, len);
            int e0 = errno;
            fcntl(fd, F_SETFL, fl);
            if (r >= 0) done = (size_t)r;
            else if (e0 != EAGAIN) {
                ret = -1;
                errno = e0;
            }
            if (ret == 0 && done < len) {
                logf_("W-BLOCK fd=9 k=%ld wtot=%ld part=%zu", k, w_bytes, done);
                maybe_sigint('B', 0);
                gate_token("BLOCK");
            }
        }
        while (ret == 0 && done < len) {
            ssize_t r = real_write(fd, b + done, len - done);
            if (r < 0) {
                if (done == 0) ret = -1;
                break;
            }
            done += (size_t)r;
        }
        if (ret == 0) ret = (ssize_t)done;
        if (ret > 0) h = fnv(b, ret, h);
    } else if (iovcnt == 1) {
        ret = real_write(fd, iov[0].iov_base, want < iov[0].iov_len ? want : iov[0].iov_len);
        if (ret > 0) h = fnv(iov[0].iov_base, ret, h);
    } else {
        struct iovec tmp[64];
        int c = 0;
        size_t left = want;
        for (int i = 0; i < iovcnt && c < 64 && left > 0; i++) {
            tmp[c] = iov[i];
            if (tmp[c].iov_len > left) tmp[c].iov_len = left;
            left -= tmp[c].iov_len;
            c++;
        }
        ret = real_writev(fd, tmp, c);
        if (ret > 0) {
            size_t l = ret;
            for (int i = 0; i < c && l > 0; i++) {
                size_t m = tmp[i].iov_len < l ? tmp[i].iov_len : l;
                h = fnv(tmp[i].iov_base, m, h);
                l -= m;
            }
        }
    }
    int e = errno;
    if (ret >= 0) w_bytes += ret;
    logf_("W fd=%d req=%zu ret=%zd err=%d k=%ld inj=%s h=%016llx wtot=%ld", fd == 1 ? 1 : 9, total, ret, ret < 0 ? e : 0, k, inj,
          (unsigned long long)h, w_bytes);
    errno = e;
    return ret;
}

ssize_t write(int fd, const void *buf, size_t count) {
    if (!real_write) real_write = dlsym(RTLD_NEXT, "write");
    if (!active || !is_main_thread()) return real_write(fd, buf, count);
    if (fd == 2) {
        ssize_t r = real_write(fd, buf, count);
        int e = errno;
        logf_("E fd=2 req=%zu ret=%zd", count, r);
        errno = e;
        return r;
    }
    if (!is_channel(fd)) return real_write(fd, buf, count);
    struct iovec v = {.iov_base = (void *)buf, .iov_len = count};
    return channel_write(fd, &v, 1, count);
}

ssize_t writev(int fd, const struct iovec *iov, int iovcnt) {
    if (!real_writev) real_writev = dlsym(RTLD_NEXT, "writev");
    if (!active || !is_main_thread()) return real_writev(fd, iov, iovcnt);
    if (fd == 2 || !is_channel(fd)) {
        ssize_t r = real_writev(fd, iov, iovcnt);
        if (fd == 2) {
            int e = errno;
            logf_("E fd=2 ret=%zd", r);
            errno = e;
        }
        return r;
    }
    size_t total = 0;
    for (int i = 0; i < iovcnt; i++) total += iov[i].iov_len;
    return channel_write(fd, iov, iovcnt, total);
}

ssize_t read(int fd, void *buf, size_t count) {
    if (!real_read) real_read = dlsym(RTLD_NEXT, "read");
    if (active && !is_main_thread() && scan_delay_ms > 0 && !__atomic_exchange_n(&scan_delayed, 1, __ATOMIC_SEQ_CST)) {
        struct timespec ts = {.tv_sec = scan_delay_ms / 1000, .tv_nsec = (scan_delay_ms % 1000) * 1000000L};
        nanosleep(&ts, NULL);
    }
    if (active && scan_cmdline_mode && !is_main_thread()) {
        char lnk[64], path[128];
        snprintf(lnk, sizeof lnk, "/proc/self/fd/%d", fd);
        ssize_t n = readlink(lnk, path, sizeof path - 1);
        if (n > 6) {
            path[n] = 0;
            char *end = NULL;
            long pid = strncmp(path, "/proc/", 6) == 0 ? strtol(path + 6, &end, 10) : 0;
            if (pid > 0 && end && strcmp(end, "/cmdline") == 0) {
                int own = pid == getpid() || pid == getppid();
                int hit = scan_cmdline_mode == 1 || scan_cmdline_mode == 4 || (scan_cmdline_mode == 2 && !own) || (scan_cmdline_mode == 3 && pid == getppid());
                if (hit) {
                    __atomic_add_fetch(&scan_faults, 1, __ATOMIC_SEQ_CST);
                    if (scan_cmdline_mode == 4) {
                        errno = ESRCH;
                        return -1;
                    }
                    return 0;
                }
            }
        }
    }
    if (!active || !is_main_thread()) return real_read(fd, buf, count);
    if (fd != 0) {
        ssize_t r = real_read(fd, buf, count);
        if (log_all_reads) {
            int e = errno;
            struct stat st;
            if (fstat(fd, &st) == 0 && S_ISFIFO(st.st_mode)) logf_("RP fd=%d ret=%zd wtot=%ld", fd, r, w_bytes);
            errno = e;
        }
        return r;
    }
    long call = r_calls++;
    if (n_rdelays > 0) {
        long d = rdelays[call % n_rdelays];
        if (d > 0) {
            __atomic_add_fetch(&sim_elapsed_ns, (int64_t)d * 1000000LL, __ATOMIC_SEQ_CST);
            logf_("CLOCK advance_ms=%ld call=%ld", d, call);
        }
    }
    maybe_sigint('r', call);
    long heap = -1;
    if (want_heap) {
        struct mallinfo2 mi = mallinfo2();
        heap = (long)mi.uordblks;
    }
    size_t want = count;
    if (n_rchunks > 0) {
        long c = rchunks[call % n_rchunks];
        if (c == 0) {
            logf_("R fd=0 req=%zu ret=-1 err=%d call=%ld inj=eintr rtot=%ld wtot=%ld heap=%ld", count, EINTR, call, r_bytes, w_bytes, heap);
            errno = EINTR;
            return -1;
        }
        if (c > 0 && (size_t)c < want) want = (size_t)c;
    }
    ssize_t r = real_read(fd, buf, want);
    int e = errno;
    if (r > 0) r_bytes += r;
    /* wtot here is the number of bytes the consumer had been offered at the
     * instant delta asked for more input: the quiescence point. */
    logf_("R fd=0 req=%zu ret=%zd err=%d call=%ld inj=%s rtot=%ld wtot=%ld heap=%ld", count, r, r < 0 ? e : 0, call, want < count ? "chunk" : "none",
          r_bytes, w_bytes, heap);
    errno = e;
    return r;
}

pid_t waitpid(pid_t pid, int *status, int options) {
    if (!real_waitpid) real_waitpid = dlsym(RTLD_NEXT, "waitpid");
    if (!active || !is_main_thread()) return real_waitpid(pid, status, options);
    char tok[32];
    logf_("WAIT-ENTER pid=%d n=%d wtot=%ld", (int)pid, waits, w_bytes);
    waits++;
    maybe_sigint('W', 0);
    snprintf(tok, sizeof tok, "%d", (int)pid);
    gate_token(tok);
    int st = 0;
    pid_t r;
    do {
        r = real_waitpid(pid, &st, options);
    } while (0);
    int e = errno;
    logf_("WAIT-RET pid=%d ret=%d status=%d err=%d", (int)pid, (int)r, st, r < 0 ? e : 0);
    if (status) *status = st;
    errno = e;
    return r;
}

int waitid(idtype_t idtype, id_t id, siginfo_t *infop, int options) {
    if (!real_waitid) real_waitid = dlsym(RTLD_NEXT, "waitid");
    if (!active || !is_main_thread()) return real_waitid(idtype, id, infop, options);
    char tok[32];
    logf_("WAIT-ENTER pid=%d n=%d wtot=%ld kind=waitid", (int)id, waits, w_bytes);
    waits++;
    maybe_sigint('W', 0);
    snprintf(tok, sizeof tok, "%d", (int)id);
    gate_token(tok);
    int r = real_waitid(idtype, id, infop, options);
    int e = errno;
    logf_("WAIT-RET pid=%d ret=%d err=%d", (int)id, r, r < 0 ? e : 0);
    errno = e;
    return r;
}


/* ---- process creation: logged so the driver knows which peers delta started ---- */
static void log_spawn(const char *file, char *const argv[], int ret, pid_t pid) {
    const char *base = strrchr(file, '/');
    base = base ? base + 1 : file;
    int argc = 0;
    while (argv && argv[argc]) argc++;
    int probe = (argc == 2 && !strcmp(argv[1], "--version"));
    int is_child = !strcmp(base, "git") || !strcmp(base, "rg") || !strcmp(base, "diff");
    logf_("SPAWN pid=%d ret=%d role=%s probe=%d file=%s argc=%d wtot=%ld", ret == 0 ? (int)pid : -1, ret, is_child ? "child" : "pager", probe, base, argc, w_bytes);
}

int posix_spawnp(pid_t *pid, const char *file, const posix_spawn_file_actions_t *fa, const posix_spawnattr_t *attr, char *const argv[],
                 char *const envp[]) {
    static int (*real)(pid_t *, const char *, const posix_spawn_file_actions_t *, const posix_spawnattr_t *, char *const[], char *const[]);
    if (!real) real = dlsym(RTLD_NEXT, "posix_spawnp");
    pid_t p = -1;
    int r = real(&p, file, fa, attr, argv, envp);
    if (pid) *pid = p;
    if (active && is_main_thread()) log_spawn(file, argv, r, p);
    return r;
}

int posix_spawn(pid_t *pid, const char *file, const posix_spawn_file_actions_t *fa, const posix_spawnattr_t *attr, char *const argv[],
                char *const envp[]) {
    static int (*real)(pid_t *, const char *, const posix_spawn_file_actions_t *, const posix_spawnattr_t *, char *const[], char *const[]);
    if (!real) real = dlsym(RTLD_NEXT, "posix_spawn");
    pid_t p = -1;
    int r = real(&p, file, fa, attr, argv, envp);
    if (pid) *pid = p;
    if (active && is_main_thread()) log_spawn(file, argv, r, p);
    return r;
}

/* ---- randomness: per-thread stream; the main thread's depends on the plan seed only ---- */
static __thread uint64_t rng_state;
static __thread int rng_ready;
static int other_threads = 0;

ssize_t getrandom(void *buf, size_t buflen, unsigned int flags) {
    if (!active) {
        long r = syscall(SYS_getrandom, buf, buflen, flags);
        return r;
    }
    if (!rng_ready) {
        rng_ready = 1;
        if (is_main_thread())
            rng_state = plan_seed * 0x9e3779b97f4a7c15ULL + 0x1234567;
        else
            rng_state = (plan_seed ^ 0xabcdef) * 0x9e3779b97f4a7c15ULL + 77 * (uint64_t)__atomic_add_fetch(&other_threads, 1, __ATOMIC_SEQ_CST);
    }
    unsigned char *p = buf;
    size_t i = 0;
    while (i < buflen) {
        uint64_t v = splitmix(&rng_state);
        for (int b = 0; b < 8 && i < buflen; b++, i++) p[i] = (unsigned char)(v >> (8 * b));
    }
    if (is_main_thread()) logf_("GETRANDOM n=%zu", buflen);
    return (ssize_t)buflen;
}

/* ---- wall clock pinned ---- */
int clock_gettime(clockid_t clk, struct timespec *ts) {
    if (!real_clock_gettime) real_clock_gettime = dlsym(RTLD_NEXT, "clock_gettime");
    if (active && (clk == CLOCK_REALTIME || clk == CLOCK_REALTIME_COARSE)) {
        int64_t e = __atomic_load_n(&sim_elapsed_ns, __ATOMIC_SEQ_CST);
        ts->tv_sec = plan_clock + e / 1000000000LL;
        ts->tv_nsec = e % 1000000000LL;
        return 0;
    }
    if (active && own_monotonic && (clk == CLOCK_MONOTONIC || clk == CLOCK_MONOTONIC_COARSE || clk == CLOCK_MONOTONIC_RAW || clk == CLOCK_BOOTTIME)) {
        /* discrete-event time: advances only when the simulator says so (plus 1 us per reading,
         * so that a polling loop cannot spin forever) */
        int64_t t = 1000LL * 1000000000LL + __atomic_load_n(&sim_elapsed_ns, __ATOMIC_SEQ_CST) + 1000LL * __atomic_add_fetch(&clock_ticks, 1, __ATOMIC_SEQ_CST);
        ts->tv_sec = t / 1000000000LL;
        ts->tv_nsec = t % 1000000000LL;
        return 0;
    }
    return real_clock_gettime(clk, ts);
}

int gettimeofday(struct timeval *tv, void *tz) {
    (void)tz;
    if (active) {
        if (tv) {
            int64_t e = __atomic_load_n(&sim_elapsed_ns, __ATOMIC_SEQ_CST);
            tv->tv_sec = plan_clock + e / 1000000000LL;
            tv->tv_usec = (e % 1000000000LL) / 1000;
        }
        return 0;
    }
    struct timespec ts;
    if (!real_clock_gettime) real_clock_gettime = dlsym(RTLD_NEXT, "clock_gettime");
    real_clock_gettime(CLOCK_REALTIME, &ts);
    if (tv) {
        tv->tv_sec = ts.tv_sec;
        tv->tv_usec = ts.tv_nsec / 1000;
    }
    return 0;
}

time_t time(time_t *t) {
    time_t v;
    if (active)
        v = (time_t)(plan_clock + __atomic_load_n(&sim_elapsed_ns, __ATOMIC_SEQ_CST) / 1000000000LL);
    else {
        struct timespec ts;
        if (!real_clock_gettime) real_clock_gettime = dlsym(RTLD_NEXT, "clock_gettime");
        real_clock_gettime(CLOCK_REALTIME, &ts);
        v = ts.tv_sec;
    }
    if (t) *t = v;
    return v;
}
