// Canary for the determinism self-test: built as a binary called `delta` so that the shim is active.
// Prints the iteration order of a HashMap of the builtin feature names, and the wall clock.
use std::collections::HashMap;
fn main() {
    let mut m = HashMap::new();
    for w in ["color-only", "diff-highlight", "diff-so-fancy", "hyperlinks", "line-numbers", "navigate", "raw", "side-by-side"] {
        m.insert(w, 1);
    }
    let order: Vec<&str> = m.keys().copied().collect();
    let now = std::time::SystemTime::now().duration_since(std::time::UNIX_EPOCH).unwrap().as_secs();
    println!("{} {}", order.join(","), now);
}
